"""C19 — campaign and trigger sheets compile row for row into resolvable definitions.

A  proof step: Rpft.Props.C19 (campaign_rowwise, trigger_rowwise, *_accepted_iff,
   *_invalid_rejected, *_valid_accepted, field_key_spec, …) against tables regenerated
   from /repo.
B  tie: generated content indexes (flows + campaign sheets + trigger sheets) through the real
   ContentIndexParser(...).parse_all().render() vs the Lean model (`campaign.rows`,
   `trigger.rows`, `trigger.exist`): exception class / failing fields, CRITICAL records
   (sheet, row, kind), and the `campaigns` / `triggers` arrays + flow uuids after uuid
   canonicalisation.  Direct ties of `generate_field_key` and `int()`.
C  direct oracle: the statement evaluated on the real output by an independent Python
   reference (one event per row in order with the stated fields; one uuid per name, equal
   to the flow's; statement-invalid rows rejected).
"""
from __future__ import annotations

import json
import logging
import random
import re

from .. import core, par

MANIFEST = dict(
    text="Proof: Lean theorems campaign_rowwise / trigger_rowwise (an accepted sheet of any length yields exactly one event / trigger per row, in order, with the stated fields), campaign_accepted_iff / trigger_accepted_iff (accepted exactly when every row is valid; corollaries *_invalid_rejected and *_valid_accepted for every enum, message events without text, keyword triggers without keyword), field_key_spec, over a line-by-line hand model of CampaignParser / CampaignEvent / TriggerParser / Trigger / the pydantic validators / generate_field_key; tied to the code by a differential run of generated content indexes (0..8 rows per sheet, every enum value valid and invalid, optional columns present/absent, shared groups and flows) through the real ContentIndexParser and by T1 constants regenerated from the source; reference resolution (one name, one uuid, equal to the flow's) is checked directly on every real output, not proved.",
    ref="§5 C19",
    note="Trusts: Lean kernel (axioms audited each run), the differential harness and Driver JSON codec, CPython int()/str.strip/lower on ASCII as modelled, pydantic v1 validator semantics as modelled (exercised by the tie). Not proved: UUID-dictionary resolution (C06's model; oracle-checked here). Known finding: F-C06-b (F-C19-a, message always keyed 'eng', was fixed in /repo) (trigger for an only-referenced flow accepted).",
    technique="Lean 4 proof (induction over the row loop; row-level iff characterisations) + generated model/code correspondence + direct oracle",
)

UNITS = ["M", "H", "D", "W"]
START_MODES = ["I", "S", "P"]
EVENT_TYPES = ["M", "F"]
TRIG_TYPES = ["K", "C", "M", "T"]
MATCH_TYPES = ["F", "O", ""]
BAD_UNITS = ["", "m", "h", "X", "MM", "Minute", "0", "HD"]
BAD_START = ["", "i", "s", "X", "IS", "Skip", "1"]
BAD_EVENT = ["", "m", "f", "X", "MF", "Flow", "K"]
BAD_TRIG = ["", "k", "c", "X", "KC", "Keyword", "F"]
BAD_MATCH = ["f", "o", "X", "FO", "Only", "0"]

CI_HEADERS = ["type", "sheet_name", "new_name", "group"]
FLOW_HEADERS = ["row_id", "type", "from", "message_text", "mainarg_groups", "obj_id", "mainarg_flow_name"]
CAMP_REQUIRED = ["offset", "unit", "event_type", "relative_to", "start_mode"]
CAMP_OPTIONAL = ["uuid", "delivery_hour", "message", "flow", "base_language"]
TRIG_OPTIONAL = ["keywords", "flow", "groups", "exclude_groups", "channel", "match_type"]
UUID_RE = re.compile(r"^[0-9a-f]{8}-[0-9a-f]{4}-[0-9a-f]{4}-[0-9a-f]{4}-[0-9a-f]{12}$")

GROUP_POOL = ["G1", "My Group", "grp 3", "Survey-Users", "été"]
FLOW_POOL = ["f", "Flow B", "flow c"]
GHOST_POOL = ["campaign only flow", "Elsewhere"]        # flows named by campaign events only, never defined
GIVEN_GROUP_UUID = {g: "aaaaaaaa-0000-4000-8000-%012d" % i for i, g in enumerate(GROUP_POOL)}
LABELS = ["Created On", "last seen on", "X", "a1 b2", "MiXeD Case", "Two  Spaces", "under_score", "A-b.c",
          "Signup Date 2", "q", "abcdefghijklmnopqrstuvwxyz0123456789", "AB CD EF GH IJ KL MN OP QR ST UV WX",
          # different spellings of ONE field (same derived key): every event keeps the label its own row wrote
          "created on", "Created_On", "CREATED ON", "Last Seen On", "last_seen_on", "x"]
OFFSETS = ["0", "15", "-3", "+7", "1_000", "007", "150", "-0", "2"]
HOURS = ["", "", "0", "7", "12", "23", "-1", "08"]
MESSAGES = ["Hello", "Hi there, friend!", "a;b|c\\d", "Ünïcode ✓ 日本", "line one\nline two", "x", "100%", "M"]
KEYWORDS = ["hello", "Join Now", "STOP", "the word", "a\\;b", "ok", "été", "k9"]
CHANNELS = ["", "", "chan-1", "7c9e6679-7425-40de-944b-e07fc1f90ae7"]
WS = ["", "", "", " ", "  ", "\t", "\n", " "]

# ---- near-duplicate names: a name is the exact string written in the cell (ends trimmed).  Names that are equal
# only up to inner whitespace, up to letter case or up to a trailing character are DIFFERENT names: different
# objects, different uuids; a trigger for a near-duplicate of a defined flow is a trigger for an unknown flow.
NBSP = "\u00a0"
INNER_WS = ["  ", "\t", NBSP, "   ", " \t", "\u2003"]
TRAILING = [".", "s", "2", "_", "!", "-"]
NEAR_GROUP_BASES = ["VIP users", "My Group", "grp 3", "Survey Users été"]
NEAR_FLOW_BASES = ["welcome flow", "Flow B", "flow c", "Sign Up 2"]
NEAR_GHOST_BASES = ["campaign only flow", "Else where"]
NEAR_P = 0.2             # share of generated indexes whose names come from near-duplicate families
NEAR_UNDEFINED_P = 0.35  # ... of those (main stream, with a trigger row): one trigger names an undefined family member


def ws_variants(name):
    """the name with ONE inner blank written differently (doubled, tab, no-break space, ...)"""
    out = []
    for i, ch in enumerate(name):
        if ch == " ":
            out += [name[:i] + w + name[i + 1:] for w in INNER_WS]
    return out


def case_variants(name):
    out = [name.lower(), name.upper(), name.title(), name.swapcase(), name[0].swapcase() + name[1:]]
    return [v for v in dict.fromkeys(out) if v != name]


def trailing_variants(name):
    out = [name + c for c in TRAILING]
    if name[:-1] == name[:-1].strip():
        out.append(name[:-1])
    return out


VARIANT_KINDS = {"ws": ws_variants, "case": case_variants, "trailing": trailing_variants}


def near_family(rng, base, n):
    """`base` and n-1 pairwise different near-duplicates of it: one of every kind first (inner whitespace, letter
    case, trailing character), then variants of variants"""
    fam = [base]
    kinds = sorted(VARIANT_KINDS)
    rng.shuffle(kinds)
    tries = 0
    while len(fam) < n and tries < 200:
        tries += 1
        k = len(fam) - 1
        if k < len(kinds):
            vs = VARIANT_KINDS[kinds[k]](base)
        else:
            vs = VARIANT_KINDS[rng.choice(kinds)](rng.choice(fam))
        v = rng.choice(vs) if vs else ""
        if v and v == v.strip() and v not in fam:
            fam.append(v)
    return fam


def squeeze_ws(s):
    return " ".join(s.split())


def near_kinds(a, b):
    """in which ways two different names are near-duplicates of each other"""
    out = set()
    if a == b:
        return out
    if squeeze_ws(a) == squeeze_ws(b):
        out.add("ws")
    if a.lower() == b.lower() or a.casefold() == b.casefold():
        out.add("case")
    if (len(a) == len(b) + 1 and a[:-1] == b) or (len(b) == len(a) + 1 and b[:-1] == a):
        out.add("trailing")
    return out


def names_used(case):
    """(group names, flow names) written anywhere in the index: campaign groups, trigger include / exclude groups,
    groups of flow rows; flows created by the index, started by flows, named by campaign events and triggers"""
    groups, flows = [], []
    defined = [it["name"] for it in case["items"] if it["kind"] == "flow"]
    flows += defined
    for f in case["flows"]:
        if f["name"] in defined:
            for r in f["rows"]:
                if r[1] in ("add_to_group", "remove_from_group"):
                    groups.append(r[4].strip())
                if r[1] == "start_new_flow":
                    flows.append(r[6].strip())
    for it in case["items"]:
        if it["kind"] == "campaign":
            groups.append(it["group"].strip())
        if it["kind"] in ("campaign", "triggers"):
            for r in it["rows"]:
                flows.append(r["cells"].get("flow", "").strip())
                for col in ("groups", "exclude_groups"):
                    groups += r.get("lists", {}).get(col, [])
    return ([g for g in dict.fromkeys(groups) if g], [f for f in dict.fromkeys(flows) if f])


def near_strata(case):
    """which kinds of near-duplicate names are used TOGETHER in this index"""
    out = set()
    for what, names in zip(("group", "flow"), names_used(case)):
        for i, a in enumerate(names):
            for b in names[i + 1:]:
                out |= {f"neardup.{what}.{k}" for k in near_kinds(a, b)}
    return out


def unknown_near_created(case):
    """a trigger names a flow the index does not create, and that name is a near-duplicate of a created flow's"""
    defined = [it["name"] for it in case["items"] if it["kind"] == "flow"]
    trig = [r["cells"].get("flow", "").strip() for it in case["items"] if it["kind"] == "triggers" for r in it["rows"]]
    return any(f and f not in defined and any(near_kinds(f, d) for d in defined) for f in trig)


def trigger_flow_status(case):
    """read off the index itself: does a trigger row name a flow that the index does not create?  'nowhere' = nothing
    else names that flow either (the exact string); 'referenced' = a start_new_flow row / a campaign event names it
    (known finding F-C06-b); None = every trigger flow is created by the index"""
    defined = {it["name"] for it in case["items"] if it["kind"] == "flow"}
    referenced = set()
    for f in case["flows"]:
        if f["name"] in defined:
            referenced |= {r[6].strip() for r in f["rows"] if r[1] == "start_new_flow"}
    trig = []
    for it in case["items"]:
        if it["kind"] == "campaign":
            referenced |= {r["cells"].get("flow", "").strip() for r in it["rows"]}
        elif it["kind"] == "triggers":
            trig += [r["cells"].get("flow", "").strip() for r in it["rows"]]
    missing = [f for f in trig if f and f not in defined]
    if any(f not in referenced for f in missing):
        return "nowhere"
    return "referenced" if missing else None


# ------------------------------------------------------------------ real code


def _reader_cls():
    import tablib

    from rpft.parsers.sheets import AbstractSheetReader, Sheet

    class MemReader(AbstractSheetReader):
        def __init__(self, sheets, name="mem"):
            self.name = name
            self._sheets = {}
            for n, (headers, rows) in sheets.items():
                ds = tablib.Dataset(headers=list(headers))
                for r in rows:
                    ds.append(list(r))
                self._sheets[n] = Sheet(reader=self, name=n, table=ds)

    return MemReader


class _Capture(logging.Handler):
    def __init__(self):
        super().__init__()
        self.recs = []

    def emit(self, record):
        from rpft.logger.logger import logging_context_handler

        if record.levelno >= logging.ERROR:
            self.recs.append((record.levelname, record.getMessage(), list(logging_context_handler.get_processing_stack())))


def sheets_of_case(case):
    sheets = {}
    ci = []
    for it in case["items"]:
        if it["kind"] == "flow":
            ci.append(["create_flow", it["name"], "", ""])
        elif it["kind"] == "campaign":
            ci.append(["create_campaign", it["sheet"], it.get("new_name", ""), it["group"]])
            sheets[it["sheet"]] = (it["headers"], [[r["cells"][h] for h in it["headers"]] for r in it["rows"]])
        else:
            ci.append(["create_triggers", it["sheet"], "", ""])
            sheets[it["sheet"]] = (it["headers"], [[r["cells"][h] for h in it["headers"]] for r in it["rows"]])
    for f in case["flows"]:
        sheets[f["name"]] = (FLOW_HEADERS, f["rows"])
    sheets["content_index"] = (CI_HEADERS, ci)
    return sheets


def run_real(case):
    """ContentIndexParser(reader).parse_all().render() — what converters.create_flows does after
    building its reader — with an in-memory reader; errors captured."""
    from rpft.logger.logger import logging_context_handler
    from rpft.parsers.creation.contentindexparser import ContentIndexParser

    Reader = _reader_cls()
    h = _Capture()
    names = ["main", "rpft.rapidpro.models.routers"]
    loggers = [logging.getLogger(n) for n in names]
    old = [(lg.level, lg.propagate) for lg in loggers]
    for lg in loggers:
        lg.addHandler(h)
        lg.propagate = False
    depth = len(logging_context_handler.get_processing_stack())     # public getter: how the handler stores its stack is its business
    out, exc = None, None
    try:
        try:
            out = ContentIndexParser(Reader(sheets_of_case(case))).parse_all().render()
        except Exception as e:  # noqa: BLE001
            exc = classify_exception(e)
    finally:
        for lg, (lv, pr) in zip(loggers, old):
            lg.removeHandler(h)
            lg.propagate = pr
        # an exception inside `with logging_context` pops correctly; be defensive anyway
        while len(logging_context_handler.get_processing_stack()) > depth:
            logging_context_handler.pop()
    return {"out": out, "exc": exc, "recs": h.recs}


def classify_exception(e):
    name = type(e).__name__
    msg = str(e)
    if name == "ValidationError" and hasattr(e, "errors"):
        fields = [str(x["loc"][0]) for x in e.errors()]
        return {"kind": "validation", "fields": fields, "class": name, "msg": msg[:300]}
    if name == "KeyError":
        return {"kind": "keyError", "class": name, "msg": msg[:300]}
    if name == "ValueError":
        return {"kind": "valueError", "class": name, "msg": msg[:300]}
    if name == "RapidProActionError":
        k = "keyTooLong" if "no longer than" in msg else "keyNoLetter" if "at least one letter" in msg else "actionError"
        return {"kind": k, "class": name, "msg": msg[:300]}
    if name == "RapidProTriggerError":
        # the flow is what the message names; recognised wording gives it exactly, otherwise it stays open (None)
        m = re.match(r"Trigger references undefined flow name (.*)$", msg, re.S)
        return {"kind": "undefinedFlow", "name": m.group(1) if m else None, "class": name, "msg": msg[:300]}
    return {"kind": name, "class": name, "msg": msg[:300]}


CRIT_KINDS = [
    ("invalid literal for int()", "intOffset"),
    ("CampaignEvent must have a message", "msgNeedsText"),
    ('Triggers of type "K" must have a keyword', "needsKeyword"),
    ("Trigger must have flow", "needsFlow"),
    ("Trigger group must have a name", "groupNeedsName"),
]


def same_exc_kind(real_kind: str, model_kind: str) -> bool:
    """exception kinds agree; a RapidProActionError whose wording is not recognised (`actionError`: the CLASS is the
    robust signal) agrees with either field-key problem"""
    return real_kind == model_kind or (real_kind == "actionError" and model_kind in ("keyTooLong", "keyNoLetter"))


def same_records(real_recs, model_recs) -> bool:
    """classified CRITICAL records agree: level, sheet and row always; the kind where the wording is recognised (a
    record in words not on record — `other:…` — is tied by level and position only)"""
    if len(real_recs) != len(model_recs):
        return False
    for a, b in zip(real_recs, model_recs):
        if list(a) == list(b):
            continue
        if not (isinstance(a[3], str) and a[3].startswith("other:") and list(a[:3]) == list(b[:3])):
            return False
    return True


def classify_record(rec):
    level, msg, stack = rec
    kind = next((k for p, k in CRIT_KINDS if msg.startswith(p)), "other:" + msg[:60])
    row = None
    sheet = None
    if stack and stack[-1].startswith("row "):
        try:
            row = int(stack[-1][4:]) - 2
        except ValueError:
            pass
        if len(stack) >= 2:
            sheet = stack[-2].split(" | ")[-1]
    return [level, sheet, row, kind]


# ------------------------------------------------------------------ canonicalisation


def canon_uuids(doc):
    """rename every value under a key "uuid" to #k by first occurrence (sorted-key traversal);
    returns (renamed doc, is_bijection)"""
    table = {}

    def walk(x):
        if isinstance(x, dict):
            out = {}
            for k in sorted(x):
                v = x[k]
                if k == "uuid" and isinstance(v, str):
                    if v not in table:
                        table[v] = f"#{len(table)}"
                    out[k] = table[v]
                else:
                    out[k] = walk(v)
            return out
        if isinstance(x, list):
            return [walk(v) for v in x]
        return x

    return walk(doc)


def boundary_doc(out):
    return {
        "campaigns": out["campaigns"],
        "triggers": out["triggers"],
        "flows": sorted(({"name": f["name"], "uuid": f["uuid"]} for f in out["flows"]), key=lambda d: d["name"]),
    }


# ------------------------------------------------------------------ model side


def model_requests(case):
    reqs = []
    ci = 0
    for it in case["items"]:
        if it["kind"] == "campaign":
            reqs.append({"op": "campaign.rows", "index": ci, "name": it.get("new_name") or it["sheet"],
                         "group": it["group"].strip(), "rows": [r["cells"] for r in it["rows"]]})
            ci += 1
        elif it["kind"] == "triggers":
            reqs.append({"op": "trigger.rows", "rows": [r["cells"] for r in it["rows"]]})
    return reqs


def flow_facts(case):
    defined = [it["name"] for it in case["items"] if it["kind"] == "flow"]
    referenced = []
    for f in case["flows"]:
        if f["name"] in defined:
            for r in f["rows"]:
                if r[1] == "start_new_flow":
                    referenced.append(r[6].strip())
    return defined, referenced


INDEX_TIME = {"validation", "keyError", "unsupported"}


def compose_model(case, answers):
    """first pass: per-sheet answers → predicted exception (if any at index / parse time), crits,
    documents; returns (pred, exist_request or None)"""
    items = [it for it in case["items"] if it["kind"] != "flow"]
    assert len(items) == len(answers)
    for a in answers:
        if "__error__" in a:
            return {"driver_error": a["__error__"]}, None
    # index time: row-model validation in index order
    for it, a in zip(items, answers):
        if "exc" in a and a["exc"]["kind"] in INDEX_TIME:
            return {"exc": a["exc"]}, None
    crits = []
    camps = []
    ev_flows = []
    for it, a in zip(items, answers):
        if it["kind"] != "campaign":
            continue
        if "exc" in a:
            return {"exc": a["exc"]}, None
        label = it.get("new_name") or it["sheet"]
        crits += [["CRITICAL", label, r, k] for r, k in a["crit"]]
        camps.append(a["campaign"])
        ev_flows += a["flows"]
    trigs = []
    trig_flows = []
    for it, a in zip(items, answers):
        if it["kind"] != "triggers":
            continue
        if "exc" in a:
            return {"exc": a["exc"]}, None
        crits += [["CRITICAL", it["sheet"], r, k] for r, k in a["crit"]]
        trigs += a["triggers"]
        trig_flows += a["flows"]
    defined, referenced = flow_facts(case)
    pred = {"crits": crits, "campaigns": camps, "triggers": trigs,
            "flows": sorted(({"name": n, "uuid": "@flow:" + n} for n in defined), key=lambda d: d["name"])}
    return pred, {"op": "trigger.exist", "known": defined + referenced + ev_flows, "flows": trig_flows}


# ------------------------------------------------------------------ independent reference (oracle C)


def ref_key(label):
    return label.strip().lower().replace(" ", "_")


def cell(r, col):
    return r["cells"].get(col, "").strip()


def camp_row_class(r):
    """'invalid' = what the statement says must be rejected; 'bad' = other things the code may
    reject (not an integer, unusable label); 'ok'"""
    if cell(r, "unit") not in UNITS or cell(r, "start_mode") not in START_MODES or cell(r, "event_type") not in EVENT_TYPES:
        return "invalid"
    if cell(r, "event_type") == "M" and cell(r, "message") == "":
        return "invalid"
    try:
        int(cell(r, "offset"))
        if cell(r, "delivery_hour"):
            int(cell(r, "delivery_hour"))
    except ValueError:
        return "bad"
    k = ref_key(cell(r, "relative_to"))
    if len(k) > 36 or not re.search("[A-Za-z]", k):
        return "bad"
    return "ok"


def trig_row_class(r):
    t = cell(r, "type")
    if t not in TRIG_TYPES:
        return "invalid"
    if t == "K" and cell(r, "match_type") not in MATCH_TYPES:
        return "invalid"
    kws = r["lists"].get("keywords", [])
    if t == "K" and (not kws or not kws[0]):
        return "invalid"
    if t != "K" and cell(r, "match_type") not in MATCH_TYPES:
        return "bad"   # the code validates the match type of keyword triggers only
    if cell(r, "flow") == "":
        return "bad"
    if any(g == "" for g in r["lists"].get("groups", []) + r["lists"].get("exclude_groups", [])):
        return "bad"
    return "ok"


def expected_event(r):
    """the statement's field list for one campaign row (uuid and reference uuids left out)"""
    et = cell(r, "event_type")
    msg = cell(r, "message")
    lang = cell(r, "base_language") or "eng"
    e = {
        "offset": int(cell(r, "offset")),
        "unit": cell(r, "unit"),
        "event_type": et,
        "delivery_hour": int(cell(r, "delivery_hour")) if cell(r, "delivery_hour") else -1,
        "start_mode": cell(r, "start_mode"),
        "relative_to": {"label": cell(r, "relative_to"), "key": ref_key(cell(r, "relative_to"))},
        "message": {lang: msg} if msg else None,
    }
    if et == "M":
        e["base_language"] = lang
    if et == "F":
        e["flow_name"] = cell(r, "flow") or None
    return e


def observed_event(ev):
    o = {k: ev.get(k) for k in ("offset", "unit", "event_type", "delivery_hour", "start_mode", "relative_to", "message")}
    if "base_language" in ev:
        o["base_language"] = ev["base_language"]
    if "flow" in ev:
        o["flow_name"] = ev["flow"].get("name")
    return o


def expected_trigger(r):
    t = cell(r, "type")
    kws = list(r["lists"].get("keywords", []))
    mt = cell(r, "match_type")
    if t == "K" and not mt:
        mt = "F"  # documented default of keyword triggers
    e = {
        "trigger_type": t,
        "keywords": kws,
        "keyword": kws[0] if kws else None,
        "channel": cell(r, "channel") or None,
        "flow_name": cell(r, "flow"),
        "groups": list(r["lists"].get("groups", [])),
        "exclude_groups": list(r["lists"].get("exclude_groups", [])),
    }
    if mt:
        e["match_type"] = mt
    return e


def observed_trigger(t):
    o = {
        "trigger_type": t.get("trigger_type"), "keywords": t.get("keywords"), "keyword": t.get("keyword"),
        "channel": t.get("channel"), "flow_name": (t.get("flow") or {}).get("name"),
        "groups": [g.get("name") for g in t.get("groups", [])],
        "exclude_groups": [g.get("name") for g in t.get("exclude_groups", [])],
    }
    if "match_type" in t:
        o["match_type"] = t["match_type"]
    return o


def collect_refs(out):
    """every (kind, name, uuid, where) reference in the container"""
    refs = []

    def walk(x, parent, where):
        if isinstance(x, dict):
            if "name" in x and "uuid" in x and len(x) <= 6:
                if parent in ("groups", "group", "exclude_groups"):
                    refs.append(("group", x["name"], x["uuid"], where))
                elif parent == "flow":
                    refs.append(("flow", x["name"], x["uuid"], where))
            if x.get("type") == "has_group" and isinstance(x.get("arguments"), list) and len(x["arguments"]) >= 2:
                refs.append(("group", x["arguments"][1], x["arguments"][0], where))
            for k, v in x.items():
                walk(v, k, where)
        elif isinstance(x, list):
            for v in x:
                walk(v, parent, where)

    for f in out.get("flows", []):
        refs.append(("flow", f.get("name"), f.get("uuid"), "flowdef"))
        walk(f.get("nodes", []), "nodes", "flow")
    walk(out.get("groups", []), "groups", "top")
    walk(out.get("campaigns", []), "campaigns", "campaign")
    walk(out.get("triggers", []), "triggers", "trigger")
    return refs


def refs_problems(out, given=None):
    probs = []
    refs = collect_refs(out)
    by_name, by_uuid = {}, {}
    for kind, name, uuid, where in refs:
        if where in ("campaign", "trigger", "flowdef", "top") and not (isinstance(uuid, str) and UUID_RE.match(uuid)):
            probs.append(f"{kind} reference {name!r} in {where} has no well-formed uuid: {uuid!r}")
        by_name.setdefault((kind, name), set()).add(uuid)
        by_uuid.setdefault((kind, uuid), set()).add(name)
    for (kind, name), us in by_name.items():
        if len(us) > 1:
            probs.append(f"{kind} {name!r} carries {len(us)} different uuids")
    for (kind, uuid), ns in by_uuid.items():
        if len(ns) > 1:
            probs.append(f"{kind} uuid {uuid} is shared by names {sorted(map(str, ns))}")
    top = {g.get("name"): g.get("uuid") for g in out.get("groups", [])}
    for g, u in (given or {}).items():
        if top.get(g) != u:
            probs.append(f"group {g!r} was given uuid {u} in a flow row but the container lists {top.get(g)!r}")
    for kind, name, uuid, where in refs:
        if kind == "group" and where in ("campaign", "trigger") and top.get(name) != uuid:
            probs.append(f"group {name!r} used by a {where} is not the top-level group of that name")
    inv = [c.get("uuid") for c in out.get("campaigns", [])] + [e.get("uuid") for c in out.get("campaigns", []) for e in c.get("events", [])]
    if len(set(inv)) != len(inv) or any(not (isinstance(u, str) and UUID_RE.match(u)) for u in inv):
        probs.append("campaign / event uuids are not distinct well-formed uuids")
    others = {u for (_, u) in by_uuid}
    if set(inv) & others:
        probs.append("a campaign / event uuid collides with a flow / group uuid")
    return probs


def given_uuids(case):
    defined = {it["name"] for it in case["items"] if it["kind"] == "flow"}
    return {r[4].strip(): r[5] for f in case["flows"] if f["name"] in defined for r in f["rows"]
            if r[1] in ("add_to_group", "remove_from_group") and r[5]}


def oracle(case, real):
    """the statement on the real output.  Returns list of (what, detail); a detail with
    key 'finding' marks a discrepancy that exactly matches a known finding's pattern.

    Library reading included: `LOGGER.critical` only logs, so a container may be rendered
    although rows were rejected.  Then the rendered events / triggers must be EXACTLY the
    rows that were not rejected, in order, one each, with that row's fields and pairwise
    distinct uuids; every statement-invalid row must have been rejected by a record naming
    it; no record may name a valid row."""
    fails = []
    recs = [classify_record(r) for r in real["recs"]]
    rejected = real["exc"] is not None or bool(recs)
    sheets = []   # (item, label, [class per row])
    classes = []
    for it in case["items"]:
        if it["kind"] == "campaign":
            cl = [camp_row_class(r) for r in it["rows"]]
            sheets.append((it, it.get("new_name") or it["sheet"], cl))
        elif it["kind"] == "triggers":
            cl = [trig_row_class(r) for r in it["rows"]]
            sheets.append((it, it["sheet"], cl))
        else:
            continue
        classes += cl
    if "invalid" in classes and not rejected:
        fails.append(("a sheet with a row the statement calls invalid was accepted without any error", {}))
        return fails
    if rejected and "invalid" not in classes and "bad" not in classes and not case.get("undefined_trigger_flow"):
        fails.append(("a sheet whose rows are all valid was rejected", {"exc": real["exc"], "records": recs[:3]}))
        return fails
    if real["exc"] is not None or real["out"] is None:
        return fails      # the run was aborted: nothing was rendered
    out = real["out"]
    if case.get("undefined_trigger_flow") == "nowhere":
        fails.append(("a trigger for a flow that exists nowhere was accepted", {}))
        return fails
    # ---- a container was rendered (possibly after CRITICAL records): which rows were rejected?
    named = {(sheet, row) for _, sheet, row, _ in recs if sheet is not None and row is not None}
    kept = {}     # label -> [(k, row)] rows that must have been compiled
    for it, label, cl in sheets:
        kept[label] = []
        for k, (r, c) in enumerate(zip(it["rows"], cl)):
            hit = (label, k) in named
            if c == "invalid" and not hit:
                fails.append(("a row the statement calls invalid was not rejected (no error names it) although a container was rendered",
                              {"sheet": it["sheet"], "row": k, "cells": r["cells"], "records": recs[:5]}))
            if c == "ok" and hit:
                fails.append(("a valid row was rejected", {"sheet": it["sheet"], "row": k, "cells": r["cells"],
                                                            "records": [x for x in recs if x[1] == label and x[2] == k]}))
            if not hit and c != "invalid":
                kept[label].append((k, r))      # 'ok', or 'bad' that nobody complained about → must be there as written
    camps = [(it, label) for it, label, _ in sheets if it["kind"] == "campaign"]
    if len(out["campaigns"]) != len(camps):
        fails.append(("number of campaigns differs from the number of campaign sheets", {"got": len(out["campaigns"]), "expected": len(camps)}))
        return fails
    for (it, label), c in zip(camps, out["campaigns"]):
        if c.get("name") != label or (c.get("group") or {}).get("name") != it["group"].strip():
            fails.append(("campaign name / group differ from the index row", {"got": [c.get("name"), c.get("group")], "expected": [label, it["group"]]}))
        evs = c.get("events", [])
        rows = kept[label]
        if len(evs) != len(rows):
            what = ("campaign does not have exactly one event per row" if len(rows) == len(it["rows"]) else
                    "campaign does not have exactly one event per non-rejected row (a rejected row must produce nothing)")
            fails.append((what, {"sheet": it["sheet"], "rows": len(it["rows"]), "rejected_rows": sorted(k for (l, k) in named if l == label),
                                 "expected_events": len(rows), "events": len(evs),
                                 "event_uuids": [e.get("uuid") for e in evs]}))
            continue
        for (k, r), ev in zip(rows, evs):
            try:
                exp = expected_event(r)
            except ValueError:
                fails.append(("a row whose offset / delivery hour is not an integer was accepted", {"sheet": it["sheet"], "row": k}))
                continue
            got = observed_event(ev)
            if got != exp:
                d = {"sheet": it["sheet"], "row": k, "cells": r["cells"], "got": got, "expected": exp}
                # F-C19-a: the ONLY difference is the message key: 'eng' instead of the base language
                lang = cell(r, "base_language")
                if (lang not in ("", "eng") and cell(r, "message")
                        and got.get("message") == {"eng": cell(r, "message")}
                        and {**got, "message": exp["message"]} == exp):
                    d["finding"] = "F-C19-a"
                fails.append(("event differs from its row (row-for-row compilation)", d))
    exp_tr = [(it["sheet"], k, r) for it, label, _ in sheets if it["kind"] == "triggers" for k, r in kept[label]]
    n_tr_rows = sum(len(it["rows"]) for it, _, _ in sheets if it["kind"] == "triggers")
    if len(out["triggers"]) != len(exp_tr):
        what = ("triggers array does not have exactly one trigger per row" if len(exp_tr) == n_tr_rows else
                "triggers array does not have exactly one trigger per non-rejected row (a rejected row must produce nothing)")
        fails.append((what, {"rows": n_tr_rows, "rejected_rows": sorted([l, k] for (l, k) in named if any(l == lab and it["kind"] == "triggers" for it, lab, _ in sheets)),
                             "expected_triggers": len(exp_tr), "triggers": len(out["triggers"])}))
    else:
        for (sheet, k, r), t in zip(exp_tr, out["triggers"]):
            exp, got = expected_trigger(r), observed_trigger(t)
            if got != exp:
                fails.append(("trigger differs from its row (row-for-row compilation)", {"sheet": sheet, "row": k, "cells": r["cells"], "got": got, "expected": exp}))
    for p in refs_problems(out, given_uuids(case)):
        fails.append(("references do not resolve one-name-one-uuid: " + p, {}))
    if case.get("undefined_trigger_flow") == "referenced":
        fails.append(("a trigger for a flow that is only referenced, never defined, was accepted", {"finding": "F-C06-b"}))
    return fails


# ------------------------------------------------------------------ generators


def pad(rng, s):
    return rng.choice(WS) + s + rng.choice(WS)


def join_list(rng, elems):
    """write a list of strings in the cell syntax (`;` separated, `\\` escapes; elements given escaped)"""
    if not elems:
        return ""
    if len(elems) == 1:
        return elems[0] + (";" if rng.random() < 0.3 else "")
    s = ";".join((" " if rng.random() < 0.3 else "") + e + (" " if rng.random() < 0.2 else "") for e in elems)
    # a trailing separator is only neutral when the last element is non-empty
    if elems[-1] != "" and rng.random() < 0.2:
        s += ";"
    return s


def unescape(e):
    return e.replace("\\;", ";").replace("\\|", "|").replace("\\\\", "\\")


def given_group_uuid(g):
    """one fixed uuid per group name (the exact string)"""
    if g in GIVEN_GROUP_UUID:
        return GIVEN_GROUP_UUID[g]
    h = core.hashlib.sha1(g.encode("utf-8")).hexdigest()
    return "bbbbbbbb-0000-4000-8000-" + h[:12]


DEFAULT_NAMES = {"groups": GROUP_POOL, "flows": FLOW_POOL, "ghosts": GHOST_POOL}


def gen_flows(rng, n_defined, names=DEFAULT_NAMES):
    defined = names["flows"][:n_defined]
    flows = []
    used_groups = []
    for name in defined:
        rows = [["", "send_message", "start", "hi from " + name, "", "", ""]]
        if rng.random() < 0.6:
            g = rng.choice(names["groups"])
            used_groups.append(g)
            # sometimes with the group's uuid given (one fixed uuid per name): campaign / trigger
            # references to that name must then carry the given uuid
            rows.append(["", rng.choice(["add_to_group", "remove_from_group"]), "", "", g,
                         given_group_uuid(g) if rng.random() < 0.4 else "", ""])
        if rng.random() < 0.35:
            other = rng.choice(defined)
            rows.append(["", "start_new_flow", "", "", "", "", other])
        flows.append({"name": name, "rows": rows})
    return flows, defined, used_groups


def gen_camp_row(rng, headers, defined, names=DEFAULT_NAMES):
    et = rng.choice(EVENT_TYPES)
    if "message" not in headers:
        et = "F"
    c = {
        "offset": rng.choice(OFFSETS),
        "unit": rng.choice(UNITS),
        "event_type": et,
        "relative_to": rng.choice(LABELS),
        "start_mode": rng.choice(START_MODES),
        "uuid": rng.choice(["", "", "0d14ac72-6bdb-44d3-af1a-4310872f1784", "not-a-uuid"]),
        "delivery_hour": rng.choice(HOURS),
        "message": "",
        "flow": "",
        "base_language": rng.choice(["", "", "eng"]),
    }
    if et == "M":
        c["message"] = rng.choice(MESSAGES)
        if rng.random() < 0.25 and defined:
            c["flow"] = rng.choice(defined)      # recorded, not rendered
    else:
        r = rng.random()
        if r < 0.75 and defined:
            c["flow"] = rng.choice(defined)
        elif r < 0.9:
            c["flow"] = rng.choice(names["ghosts"])   # never defined: invented uuid, one per name
        # else blank: the code accepts a flow event without a flow (name null)
        if rng.random() < 0.15:
            c["message"] = rng.choice(MESSAGES)
    return {"cells": {h: pad(rng, c[h]) for h in headers}}


def gen_trig_row(rng, headers, defined, names=DEFAULT_NAMES):
    t = rng.choice(TRIG_TYPES)
    if "keywords" not in headers and t == "K":
        t = rng.choice(["C", "M", "T"])
    kws = []
    if t == "K":
        kws = rng.sample(KEYWORDS, rng.randint(1, 3))
    elif rng.random() < 0.15:
        kws = rng.sample(KEYWORDS, rng.randint(1, 2))
    groups = rng.sample(names["groups"], rng.choice([0, 0, 1, 2]))
    excl = rng.sample(names["groups"], rng.choice([0, 0, 1, 2]))
    c = {
        "type": t,
        "keywords": join_list(rng, kws),
        "flow": rng.choice(defined),
        "groups": join_list(rng, groups),
        "exclude_groups": join_list(rng, excl),
        "channel": rng.choice(CHANNELS),
        "match_type": rng.choice(MATCH_TYPES) if t == "K" else rng.choice(["", "", "", "F", "O"]),
    }
    lists = {"keywords": [unescape(k) for k in kws], "groups": groups, "exclude_groups": excl}
    lists = {k: v for k, v in lists.items() if k in headers}
    return {"cells": {h: pad(rng, c[h]) for h in headers}, "lists": lists}


def shuffled(rng, xs):
    xs = list(xs)
    rng.shuffle(xs)
    return xs


def gen_names(rng):
    """the names one index draws from: the fixed pools, or (NEAR_P) families of near-duplicates — names equal up to
    inner whitespace, letter case, a trailing character — for groups, for the flows the index creates and for the
    flows only campaign events name.  `spare` = further members of the flow family that nothing creates or names."""
    if rng.random() >= NEAR_P:
        return dict(DEFAULT_NAMES, near=False, spare=[])
    fam = near_family(rng, rng.choice(NEAR_FLOW_BASES), 6)
    rng.shuffle(fam)
    return {"groups": shuffled(rng, near_family(rng, rng.choice(NEAR_GROUP_BASES), 5)),
            "flows": fam[:3], "spare": fam[3:],
            "ghosts": near_family(rng, rng.choice(NEAR_GHOST_BASES), 3), "near": True}


def gen_case(rng, cid, stream):
    names = gen_names(rng)
    n_def = rng.randint(1, 3)
    flows, defined, _ = gen_flows(rng, n_def, names)
    items = [{"kind": "flow", "name": n} for n in defined]
    n_camp = rng.choice([0, 1, 1, 2])
    n_trig = rng.choice([0, 1, 1, 2])
    if stream != "main" and n_camp + n_trig == 0:
        n_camp = n_trig = 1
    for i in range(n_camp):
        opt = [h for h in CAMP_OPTIONAL if rng.random() < 0.75]
        headers = shuffled(rng, CAMP_REQUIRED + opt)
        nrows = rng.choice([0, 1, 1, 2, 3, 4, 5, 6, 7, 8])
        rows = [gen_camp_row(rng, headers, defined, names) for _ in range(nrows)]
        items.append({"kind": "campaign", "sheet": f"camp{i + 1}", "new_name": rng.choice(["", "", "Renamed %d" % i]),
                      "group": rng.choice(names["groups"]), "headers": headers, "rows": rows})
    for i in range(n_trig):
        opt = [h for h in TRIG_OPTIONAL if h == "flow" or rng.random() < 0.75]
        headers = shuffled(rng, ["type"] + opt)
        nrows = rng.choice([0, 1, 1, 2, 3, 4, 5, 6, 7, 8])
        rows = [gen_trig_row(rng, headers, defined, names) for _ in range(nrows)]
        items.append({"kind": "triggers", "sheet": f"trig{i + 1}", "headers": headers, "rows": rows})
    rng.shuffle(items)
    case = {"id": cid, "stream": stream, "flows": flows, "items": items, "faults": [], "near": names["near"]}
    if names["near"] and stream == "main" and rng.random() < NEAR_UNDEFINED_P:
        # one (valid) trigger row names a near-duplicate of a created flow: a family member that the index does not
        # create and that no start_new_flow row / campaign event names (those draw from `defined` and `ghosts` only)
        trows = [r for it in items if it["kind"] == "triggers" for r in it["rows"]]
        unknown = [n for n in names["flows"] + names["spare"] if n not in defined]
        if trows and unknown:
            rng.choice(trows)["cells"]["flow"] = pad(rng, rng.choice(unknown))
    st = trigger_flow_status(case)
    if st:
        case["undefined_trigger_flow"] = st
    if stream == "invalid":
        inject(rng, case, INVALID_FAULTS)
    elif stream == "edge":
        inject(rng, case, EDGE_FAULTS)
    return case


def set_cell(row, col, val):
    row["cells"][col] = val


def ensure_col(it, col, default=""):
    if col not in it["headers"]:
        it["headers"].append(col)
        for r in it["rows"]:
            r["cells"][col] = default


def f_unit(rng, it, r):
    v = rng.choice(BAD_UNITS)
    set_cell(r, "unit", v)
    return "unit=" + v


def f_start(rng, it, r):
    v = rng.choice(BAD_START)
    set_cell(r, "start_mode", v)
    return "start_mode=" + v


def f_event(rng, it, r):
    v = rng.choice(BAD_EVENT)
    set_cell(r, "event_type", v)
    return "event_type=" + v


def f_nomsg(rng, it, r):
    set_cell(r, "event_type", "M")
    if "message" in it["headers"]:
        set_cell(r, "message", rng.choice(["", " ", "\t"]))
    return "message event without text" + ("" if "message" in it["headers"] else " (no message column)")


def f_ttype(rng, it, r):
    v = rng.choice(BAD_TRIG)
    set_cell(r, "type", v)
    return "type=" + v


def f_match(rng, it, r):
    ensure_col(it, "match_type")
    ensure_col(it, "keywords")
    v = rng.choice(BAD_MATCH)
    set_cell(r, "type", "K")
    if not r["lists"].get("keywords"):
        set_cell(r, "keywords", "kw")
        r["lists"]["keywords"] = ["kw"]
    set_cell(r, "match_type", v)
    return "K match_type=" + v


def f_nokw(rng, it, r):
    set_cell(r, "type", "K")
    if "match_type" in it["headers"] and r["cells"]["match_type"].strip() not in MATCH_TYPES:
        set_cell(r, "match_type", "")
    if "keywords" in it["headers"]:
        if rng.random() < 0.5:
            set_cell(r, "keywords", rng.choice(["", " "]))
            r["lists"]["keywords"] = []
        else:
            set_cell(r, "keywords", ";x")
            r["lists"]["keywords"] = ["", "x"]
        return "K without (first) keyword"
    r["lists"].pop("keywords", None)
    return "K without keywords column"


def f_offset(rng, it, r):
    v = rng.choice(["", "1.5", "x", "1 2", "1__0", "_1", "1_", "--1", "0x10", "1e3"])
    set_cell(r, "offset", v)
    return "offset=" + v


def f_hour(rng, it, r):
    ensure_col(it, "delivery_hour")
    v = rng.choice(["x", "1.5", "1 2", "7h", "_"])
    set_cell(r, "delivery_hour", v)
    return "delivery_hour=" + v


def f_label(rng, it, r):
    v = rng.choice(["", "123", "_ _", "abcdefghijklmnopqrstuvwxyz01234567890", "A" * 37, "?!"])
    set_cell(r, "relative_to", v)
    return "relative_to=" + v


def f_tflow(rng, it, r):
    if r["cells"]["type"].strip() == "K" and not r["lists"].get("keywords"):
        set_cell(r, "type", "C")
    set_cell(r, "flow", "")
    return "trigger without flow"


def f_tgroup(rng, it, r):
    col = rng.choice(["groups", "exclude_groups"])
    ensure_col(it, col)
    set_cell(r, col, "G1;;grp 3")
    r["lists"][col] = ["G1", "", "grp 3"]
    return "empty group name in " + col


def f_nonk_match(rng, it, r):
    ensure_col(it, "match_type")
    set_cell(r, "type", rng.choice(["C", "M", "T"]))
    v = rng.choice(BAD_MATCH)
    set_cell(r, "match_type", v)
    return "non-K match_type=" + v


INVALID_FAULTS = {"campaign": [f_unit, f_start, f_event, f_nomsg], "triggers": [f_ttype, f_match, f_nokw]}
EDGE_FAULTS = {"campaign": [f_offset, f_hour, f_label], "triggers": [f_tflow, f_tgroup, f_nonk_match]}


def inject(rng, case, table):
    sheets = [it for it in case["items"] if it["kind"] in table and it["rows"]]
    if not sheets:
        # make room: add one row to the first sheet
        for it in case["items"]:
            if it["kind"] in table:
                defined = [f["name"] for f in case["flows"]]
                it["rows"].append(gen_camp_row(rng, it["headers"], defined) if it["kind"] == "campaign" else gen_trig_row(rng, it["headers"], defined))
                sheets = [it]
                break
    if not sheets:
        return
    for _ in range(rng.choice([1, 1, 1, 2])):
        it = rng.choice(sheets)
        r = rng.choice(it["rows"])
        f = rng.choice(table[it["kind"]])
        case["faults"].append(f"{it['sheet']}: " + f(rng, it, r))


def enum_sweep_cases(start_id):
    """deterministic: every enum value, valid and invalid, alone in a one-row sheet"""
    cases = []
    cid = start_id
    flows = [{"name": "f", "rows": [["", "send_message", "start", "hi", "", "", ""]]}]
    base_c = {"offset": "1", "unit": "H", "event_type": "M", "relative_to": "Created On", "start_mode": "I", "message": "hello", "flow": "f"}
    base_t = {"type": "K", "keywords": "kw", "flow": "f", "match_type": ""}

    def camp(cells, stream):
        nonlocal cid
        cid += 1
        return {"id": cid, "stream": stream, "flows": flows, "faults": [], "items": [
            {"kind": "flow", "name": "f"},
            {"kind": "campaign", "sheet": "camp1", "new_name": "", "group": "G1", "headers": list(cells), "rows": [{"cells": dict(cells)}]}]}

    def trig(cells, lists, stream):
        nonlocal cid
        cid += 1
        return {"id": cid, "stream": stream, "flows": flows, "faults": [], "items": [
            {"kind": "flow", "name": "f"},
            {"kind": "triggers", "sheet": "trig1", "headers": list(cells), "rows": [{"cells": dict(cells), "lists": lists}]}]}

    for col, good, bad in (("unit", UNITS, BAD_UNITS), ("start_mode", START_MODES, BAD_START), ("event_type", EVENT_TYPES, BAD_EVENT)):
        for v in good:
            cases.append(camp({**base_c, col: v}, "sweep"))
        for v in bad:
            cases.append(camp({**base_c, col: v}, "sweep-invalid"))
    cases.append(camp({**base_c, "message": ""}, "sweep-invalid"))
    nomsg = {k: v for k, v in base_c.items() if k != "message"}
    cases.append(camp(nomsg, "sweep-invalid"))
    cases.append(camp({**nomsg, "event_type": "F"}, "sweep"))
    for v in TRIG_TYPES:
        cases.append(trig({**base_t, "type": v}, {"keywords": ["kw"]}, "sweep"))
    for v in BAD_TRIG:
        cases.append(trig({**base_t, "type": v}, {"keywords": ["kw"]}, "sweep-invalid"))
        cases.append(trig({k: x for k, x in {**base_t, "type": v}.items() if k != "match_type"}, {"keywords": ["kw"]}, "sweep-invalid"))
    for v in MATCH_TYPES:
        cases.append(trig({**base_t, "match_type": v}, {"keywords": ["kw"]}, "sweep"))
    for v in BAD_MATCH:
        cases.append(trig({**base_t, "match_type": v}, {"keywords": ["kw"]}, "sweep-invalid"))
        cases.append(trig({**base_t, "type": "C", "match_type": v}, {"keywords": ["kw"]}, "sweep-edge"))
    cases.append(trig({**base_t, "keywords": ""}, {"keywords": []}, "sweep-invalid"))
    cases.append(trig({**base_t, "keywords": ";x"}, {"keywords": ["", "x"]}, "sweep-invalid"))
    cases.append(trig({"type": "K", "flow": "f"}, {}, "sweep-invalid"))
    # library reading: an invalid row between two valid rows is rejected and produces NOTHING
    # (2 events / triggers, not 3; no uuid twice); same with the invalid row first and last
    v1 = dict(base_c)
    v2 = {**base_c, "offset": "3", "unit": "W", "event_type": "F", "message": "", "start_mode": "S"}
    bad_c = {**base_c, "offset": "2", "message": ""}
    for rows in ([v1, bad_c, v2], [bad_c, v1, v2], [v1, v2, bad_c], [v1, bad_c, bad_c, v2]):
        c = camp(v1, "sweep-mid-invalid")
        c["items"][1]["rows"] = [{"cells": dict(r)} for r in rows]
        cases.append(c)
    t1 = {**base_t, "keywords": "hello", "match_type": "O"}
    t2 = {**base_t, "type": "C", "keywords": ""}
    bad_t = {**base_t, "keywords": ""}
    for rows in ([t1, bad_t, t2], [bad_t, t1, t2], [t1, t2, bad_t], [t1, bad_t, bad_t, t2]):
        c = trig(t1, {"keywords": ["hello"]}, "sweep-mid-invalid")
        c["items"][1]["rows"] = [{"cells": dict(r), "lists": {"keywords": [r["keywords"]] if r["keywords"] else []}} for r in rows]
        cases.append(c)
    # missing required columns → rejected (oracle only needs an error)
    for col in CAMP_REQUIRED:
        c = camp({k: v for k, v in base_c.items() if k != col}, "sweep-missing")
        c["missing_required"] = True
        cases.append(c)
    return cases


def known_cases(start_id):
    """deterministic known-finding stream"""
    cases = []
    flows = [{"name": "f", "rows": [["", "send_message", "start", "hi", "", "", ""], ["", "start_new_flow", "", "", "", "", "ghost"]]}]
    cid = start_id
    for lang in ("fra", "spa", "ENG"):
        cid += 1
        cells1 = {"offset": "15", "unit": "H", "event_type": "M", "delivery_hour": "", "message": "bonjour", "relative_to": "Created On", "start_mode": "I", "flow": "", "base_language": lang}
        cells2 = {**cells1, "event_type": "F", "message": "", "flow": "f", "base_language": ""}
        cases.append({"id": cid, "stream": "known:F-C19-a", "flows": flows, "faults": [], "items": [
            {"kind": "flow", "name": "f"},
            {"kind": "campaign", "sheet": "camp1", "new_name": "", "group": "G1", "headers": list(cells1),
             "rows": [{"cells": cells1}, {"cells": cells2}]}]})
    # F-C06-b seen from a trigger sheet: flow only referenced by start_new_flow / by a campaign event
    cid += 1
    t = {"type": "C", "flow": "ghost"}
    cases.append({"id": cid, "stream": "known:F-C06-b", "flows": flows, "faults": [], "undefined_trigger_flow": "referenced", "items": [
        {"kind": "flow", "name": "f"},
        {"kind": "triggers", "sheet": "trig1", "headers": list(t), "rows": [{"cells": t, "lists": {}}]}]})
    cid += 1
    ev = {"offset": "1", "unit": "D", "event_type": "F", "relative_to": "Created On", "start_mode": "S", "flow": "camp only"}
    t2 = {"type": "M", "flow": "camp only"}
    cases.append({"id": cid, "stream": "known:F-C06-b", "flows": flows, "faults": [], "undefined_trigger_flow": "referenced", "items": [
        {"kind": "flow", "name": "f"},
        {"kind": "campaign", "sheet": "camp1", "new_name": "", "group": "G1", "headers": list(ev), "rows": [{"cells": ev}]},
        {"kind": "triggers", "sheet": "trig1", "headers": list(t2), "rows": [{"cells": t2, "lists": {}}]}]})
    # the code's own rule still works when the flow exists nowhere
    cid += 1
    t3 = {"type": "T", "flow": "nowhere"}
    cases.append({"id": cid, "stream": "undefined-flow", "flows": flows, "faults": [], "undefined_trigger_flow": "nowhere", "items": [
        {"kind": "flow", "name": "f"},
        {"kind": "triggers", "sheet": "trig1", "headers": list(t3), "rows": [{"cells": t3, "lists": {}}]}]})
    return cases


def neardup_cases(start_id):
    """deterministic: for every way of writing a near-duplicate (an inner blank doubled / as a tab / as a no-break
    space, another letter case, a trailing character more or less) one index that uses a group name, a created flow
    name and their near-duplicates TOGETHER (campaign groups, trigger include / exclude groups, trigger and event
    flows): distinct names are distinct objects; and one index whose only trigger names the near-duplicate of the one
    created flow (nothing else names it): a trigger for an unknown flow."""
    cases = []
    cid = start_id
    g, f = "VIP users", "Welcome flow"
    shapes = [("ws", lambda n: n.replace(" ", "  ")), ("ws", lambda n: n.replace(" ", "\t")),
              ("ws", lambda n: n.replace(" ", NBSP)), ("case", str.lower), ("case", str.upper), ("case", str.title),
              ("trailing", lambda n: n + "s"), ("trailing", lambda n: n + "."), ("trailing", lambda n: n[:-1])]

    def flow_sheet(name, group, start=None):
        rows = [["", "send_message", "start", "hi from " + name, "", "", ""], ["", "add_to_group", "", "", group, "", ""]]
        if start:
            rows.append(["", "start_new_flow", "", "", "", "", start])
        return {"name": name, "rows": rows}

    for kind, fn in shapes:
        g2, f2 = fn(g), fn(f)
        assert g2 != g and f2 != f and g2 == g2.strip() and f2 == f2.strip() and kind in near_kinds(g, g2) and kind in near_kinds(f, f2)
        ev = {"offset": "2", "unit": "D", "event_type": "F", "relative_to": "Created On", "start_mode": "I", "message": "", "flow": f}
        evs = [ev, {**ev, "offset": "3", "flow": f2}, {**ev, "offset": "0", "event_type": "M", "message": "Hi there", "flow": ""}]
        trs = [({"type": "K", "keywords": "join;start", "flow": f, "groups": g2, "exclude_groups": g, "match_type": "O"},
                {"keywords": ["join", "start"], "groups": [g2], "exclude_groups": [g]}),
               ({"type": "C", "keywords": "", "flow": f2, "groups": g + ";" + g2, "exclude_groups": "", "match_type": ""},
                {"keywords": [], "groups": [g, g2], "exclude_groups": []}),
               ({"type": "M", "keywords": "", "flow": f2, "groups": "", "exclude_groups": g2 + ";" + g, "match_type": ""},
                {"keywords": [], "groups": [], "exclude_groups": [g2, g]})]
        cid += 1
        cases.append({"id": cid, "stream": "neardup", "near": True, "faults": [],
                      "flows": [flow_sheet(f, g2, start=f2), flow_sheet(f2, g)], "items": [
            {"kind": "flow", "name": f}, {"kind": "flow", "name": f2},
            {"kind": "campaign", "sheet": "camp1", "new_name": "", "group": g, "headers": list(ev), "rows": [{"cells": dict(e)} for e in evs]},
            {"kind": "campaign", "sheet": "camp2", "new_name": "", "group": g2, "headers": list(ev), "rows": [{"cells": dict(e)} for e in evs[:2]]},
            {"kind": "triggers", "sheet": "trig1", "headers": list(trs[0][0]), "rows": [{"cells": dict(c), "lists": dict(l)} for c, l in trs]}]})
        # the near-duplicate is NOT created (and named by nothing but the trigger): the trigger is for an unknown flow
        for created, wanted in ((f, f2), (f2, f)):
            cid += 1
            t = {"type": "K", "keywords": "go", "flow": wanted, "groups": g, "exclude_groups": g2, "match_type": ""}
            cases.append({"id": cid, "stream": "neardup", "near": True, "faults": [], "flows": [flow_sheet(created, g)], "items": [
                {"kind": "flow", "name": created},
                {"kind": "campaign", "sheet": "camp1", "new_name": "", "group": g2, "headers": list(ev), "rows": [{"cells": {**ev, "flow": created}}]},
                {"kind": "triggers", "sheet": "trig1", "headers": list(t),
                 "rows": [{"cells": {**t, "flow": created}, "lists": {"keywords": ["go"], "groups": [g], "exclude_groups": [g2]}},
                          {"cells": dict(t), "lists": {"keywords": ["go"], "groups": [g], "exclude_groups": [g2]}}]}]})
    for c in cases:
        st = trigger_flow_status(c)
        if st:
            c["undefined_trigger_flow"] = st
    return cases


def repair_case(case, fid):
    """repair transform of a finding (counterfactual test)"""
    c = json.loads(json.dumps(case))
    if fid == "F-C19-a":
        for it in c["items"]:
            if it["kind"] == "campaign":
                for r in it["rows"]:
                    if "base_language" in r["cells"]:
                        r["cells"]["base_language"] = ""
    elif fid == "F-C06-b":
        for it in c["items"]:
            if it["kind"] == "triggers":
                for r in it["rows"]:
                    r["cells"]["flow"] = "f"
        c.pop("undefined_trigger_flow", None)
    return c


# ------------------------------------------------------------------ workers


def case_worker(cases):
    drv = core.Driver()
    reqs, spans = [], []
    for c in cases:
        rs = model_requests(c)
        spans.append((len(reqs), len(reqs) + len(rs)))
        reqs += rs
    answers = drv.results(reqs)
    preds, exist_reqs, exist_idx = [], [], []
    for c, (a, b) in zip(cases, spans):
        pred, ex = compose_model(c, answers[a:b])
        preds.append(pred)
        if ex is not None:
            exist_idx.append(len(preds) - 1)
            exist_reqs.append(ex)
    for i, ans in zip(exist_idx, drv.results(exist_reqs)):
        if isinstance(ans, dict) and "exc" in ans:
            preds[i] = {"exc": ans["exc"]}
        elif isinstance(ans, dict) and "__error__" in ans:
            preds[i] = {"driver_error": ans["__error__"]}
    res = {"n": len(cases), "ties": [], "viol": [], "known": [], "strata": {}, "keys": [], "samples": []}

    def cnt(k, n=1):
        res["strata"][k] = res["strata"].get(k, 0) + n

    for c, pred in zip(cases, preds):
        real = run_real(c)
        res["keys"].append(core.hashlib.sha1(json.dumps(c["items"], sort_keys=True).encode()).hexdigest())
        cnt("stream." + c["stream"].split(":")[0])
        if c.get("near"):
            cnt("neardup.indexes")
        for k in near_strata(c):
            cnt(k)
        if c.get("undefined_trigger_flow") == "nowhere" and unknown_near_created(c):
            cnt("neardup.trigger_flow_unknown")
        for it in c["items"]:
            if it["kind"] == "flow":
                continue
            cnt(f"{it['kind']}.rows={len(it['rows'])}")
            for r in it["rows"]:
                cells = {k: v.strip() for k, v in r["cells"].items()}
                if it["kind"] == "campaign":
                    for col in ("unit", "start_mode", "event_type"):
                        v = cells.get(col, "")
                        ok = v in {"unit": UNITS, "start_mode": START_MODES, "event_type": EVENT_TYPES}[col]
                        cnt(f"{col}={v}" if ok else f"{col}.invalid")
                    cnt("delivery_hour." + ("blank" if not cells.get("delivery_hour") else "given"))
                    cnt("label." + ("spaces" if " " in cells.get("relative_to", "") else "plain"))
                    cnt("label." + ("upper" if cells.get("relative_to", "").lower() != cells.get("relative_to", "") else "lower"))
                else:
                    v = cells.get("type", "")
                    cnt(f"type={v}" if v in TRIG_TYPES else "type.invalid")
                    if v == "K":
                        m = cells.get("match_type", "")
                        cnt(f"match_type={m or 'blank'}" if m in MATCH_TYPES else "match_type.invalid")
                    cnt(f"keywords.n={min(len(r['lists'].get('keywords', [])), 3)}")
                    cnt("groups." + ("some" if r["lists"].get("groups") else "none"))
                    cnt("exclude_groups." + ("some" if r["lists"].get("exclude_groups") else "none"))
        # ---- B: tie
        tie = None
        if "driver_error" in pred:
            tie = {"why": "driver error", "model": pred}
        elif "exc" in pred:
            cnt("outcome.exception." + pred["exc"]["kind"])
            rk = real["exc"]
            if rk is None:
                tie = {"why": "model predicts an exception, real code raised none", "model": pred["exc"], "real_records": [classify_record(r) for r in real["recs"]][:4]}
            elif not same_exc_kind(rk["kind"], pred["exc"]["kind"]):
                tie = {"why": "exception class differs", "model": pred["exc"], "real": rk}
            elif rk["kind"] == "validation" and not c.get("missing_required") and rk["fields"] != pred["exc"].get("fields"):
                tie = {"why": "failing fields differ", "model": pred["exc"], "real": rk}
            elif rk["kind"] == "undefinedFlow" and rk.get("name") is not None and rk.get("name") != pred["exc"].get("name"):
                tie = {"why": "undefined flow name differs", "model": pred["exc"], "real": rk}
        else:
            cnt("outcome.critical" if pred["crits"] else "outcome.accepted")
            if real["exc"] is not None:
                tie = {"why": "real code raised, model predicts none", "real": real["exc"]}
            else:
                rrecs = [classify_record(r) for r in real["recs"]]
                if not same_records(rrecs, pred["crits"]):
                    tie = {"why": "CRITICAL records differ", "model": pred["crits"], "real": rrecs}
                else:
                    md = canon_uuids({"campaigns": pred["campaigns"], "triggers": pred["triggers"], "flows": pred["flows"]})
                    rd = canon_uuids(boundary_doc(real["out"]))
                    if md != rd:
                        tie = {"why": "campaigns/triggers arrays differ", "model": md, "real": rd}
        if tie is not None:
            tie["case"] = c
            res["ties"].append(tie if len(res["ties"]) < 5 else None)
        # ---- C: oracle
        fails = oracle(c, real)
        for what, d in fails:
            fid = d.get("finding")
            if fid and c["stream"] == "known:" + fid:
                # counterfactual: the repair transform makes the failure disappear
                rc = repair_case(c, fid)
                if not oracle(rc, run_real(rc)):
                    res["known"].append((fid, what, {"case": c, "detail": d}))
                    continue
            res["viol"].append({"what": what, "detail": {k: v for k, v in d.items() if k != "finding"}, "case": c,
                                "real_exc": real["exc"], "real_records": [classify_record(r) for r in real["recs"]][:5]})
        if len(res["samples"]) < 2 and c["stream"] == "main" and any(it["kind"] != "flow" and it["rows"] for it in c["items"]):
            res["samples"].append({"items": [{k: it[k] for k in it if k != "rows"} | {"rows": [r["cells"] for r in it.get("rows", [])][:2]} for it in c["items"]]})
    res["viol"] = sorted(res["viol"], key=lambda v: len(json.dumps(v["case"])))[:5]
    return res


def oracle_worker(cases):
    """search mode: oracle only (no model)"""
    viol = []
    for c in cases:
        real = run_real(c)
        for what, d in oracle(c, real):
            if d.get("finding") and c["stream"].startswith("known:"):
                continue
            viol.append({"what": what, "detail": {k: v for k, v in d.items() if k != "finding"}, "case": c})
    return {"n": len(cases), "viol": sorted(viol, key=lambda v: len(json.dumps(v["case"])))[:5]}



# ------------------------------------------------------------------ CLI sample (the command stops)


def cli_worker(cases):
    """run `python -m rpft.cli create -f csv` on CSV workbooks of the cases: statement-invalid
    sheets must make the command fail (non-zero exit), valid ones must produce the output"""
    import csv
    import os
    import shutil
    import subprocess
    import sys
    import tempfile

    res = {"n": 0, "viol": [], "strata": {}}
    for c in cases:
        d = tempfile.mkdtemp(prefix="c19cli_")
        try:
            os.mkdir(os.path.join(d, "in"))
            for name, (headers, rows) in sheets_of_case(c).items():
                with open(os.path.join(d, "in", name + ".csv"), "w", encoding="utf-8", newline="") as f:
                    w = csv.writer(f)
                    w.writerow(headers)
                    w.writerows(rows)
            p = subprocess.run([sys.executable, "-m", "rpft.cli", "create", "-f", "csv", "-o", "out.json", "in"],
                               cwd=d, stdout=subprocess.PIPE, stderr=subprocess.PIPE, timeout=300)
            res["n"] += 1
            classes = []
            for it in c["items"]:
                if it["kind"] == "campaign":
                    classes += [camp_row_class(r) for r in it["rows"]]
                elif it["kind"] == "triggers":
                    classes += [trig_row_class(r) for r in it["rows"]]
            out_path = os.path.join(d, "out.json")
            if "invalid" in classes:
                res["strata"]["cli.invalid"] = res["strata"].get("cli.invalid", 0) + 1
                if p.returncode == 0:
                    res["viol"].append({"what": "CLI: a sheet with a row the statement calls invalid did not stop the command (exit 0)", "case": c})
            elif "bad" not in classes:
                res["strata"]["cli.valid"] = res["strata"].get("cli.valid", 0) + 1
                if p.returncode != 0 or not os.path.exists(out_path):
                    res["viol"].append({"what": "CLI: a valid index was rejected by the command", "case": c, "stderr": p.stderr.decode("utf-8", "replace")[-600:]})
                else:
                    out = json.load(open(out_path, encoding="utf-8"))
                    for what, dd in oracle(c, {"out": out, "exc": None, "recs": []}):
                        if not dd.get("finding"):
                            res["viol"].append({"what": "CLI: " + what, "case": c, "detail": dd})
        finally:
            shutil.rmtree(d, ignore_errors=True)
    return res


# ------------------------------------------------------------------ direct function ties


def py_lower_is_ascii(s):
    return s.lower() == "".join(chr(ord(ch) + 32) if "A" <= ch <= "Z" else ch for ch in s)


def fieldkey_worker(labels):
    from rpft.rapidpro.models.common import generate_field_key

    drv = core.Driver()
    tied = [s for s in labels if py_lower_is_ascii(s)]
    model = dict(zip(tied, drv.results([{"op": "campaign.fieldkey", "s": s} for s in tied])))
    ties, viol, n_tied = [], [], 0
    for s in labels:
        try:
            real = {"ok": generate_field_key(s)}
        except Exception as e:  # noqa: BLE001
            real = {"exc": classify_exception(e)["kind"]}
        if s in model:
            n_tied += 1
            m = model[s]
            mm = {"ok": m["ok"]} if "ok" in m else {"exc": m.get("exc", {}).get("kind")}
            if mm != real:
                ties.append({"label": s, "model": mm, "real": real})
        # C: the key is the label trimmed, lower-cased, spaces → _, at most 36 long, with a letter
        exp = s.strip().lower().replace(" ", "_")
        good = len(exp) <= 36 and re.search("[A-Za-z]", exp) is not None
        if good and real != {"ok": exp}:
            viol.append({"what": "field key is not the trimmed, lower-cased label with spaces as underscores", "label": s, "got": real, "expected": exp})
        if not good and "ok" in real:
            viol.append({"what": "field key accepted although too long / without a letter", "label": s, "got": real})
    return {"n": len(labels), "n_tied": n_tied, "ties": ties[:5], "nties": len(ties), "viol": viol[:5]}


def int_worker(strings):
    drv = core.Driver()
    model = drv.results([{"op": "campaign.int", "s": s} for s in strings])
    ties = []
    for s, m in zip(strings, model):
        try:
            real = int(s)
        except ValueError:
            real = None
        if real != m:
            ties.append({"s": s, "model": m, "real": real})
    return {"n": len(strings), "ties": ties[:5], "nties": len(ties)}


def gen_labels(rng, n):
    pool = list("abzAZM019 _-.") + ["  ", "\t", " ", "é", "日", "ß"]
    out = list(LABELS) + ["", " ", "_", "a", "A", " A ", "a" * 36, "a" * 37, " " + "a" * 36 + " ", "1" * 36, "B" * 36 + " "]
    for _ in range(n):
        k = rng.choice([0, 1, 2, 3, 5, 8, 13, 20, 34, 35, 36, 37, 38, 45])
        out.append("".join(rng.choice(pool) for _ in range(k)))
    # non-ASCII side stream (str.lower() beyond ASCII: oracle only)
    out += ["Ünï Code", "ÉTÉ", "İstanbul", "ΣΑΣ", "Straße X", "日本 語 a", "Ǆ a"]
    return out


def all_int_strings(maxlen):
    import itertools

    alpha = ["0", "1", "9", "_", "+", "-", " ", "a", "."]
    for n in range(maxlen + 1):
        for t in itertools.product(alpha, repeat=n):
            yield "".join(t)


# ------------------------------------------------------------------ run


REQUIRED_STRATA = (
    [f"unit={v}" for v in UNITS] + [f"start_mode={v}" for v in START_MODES] + [f"event_type={v}" for v in EVENT_TYPES]
    + [f"type={v}" for v in TRIG_TYPES] + ["match_type=F", "match_type=O", "match_type=blank"]
    + ["unit.invalid", "start_mode.invalid", "event_type.invalid", "type.invalid", "match_type.invalid",
       "campaign.rows=0", "campaign.rows=8", "triggers.rows=0", "triggers.rows=8", "delivery_hour.blank", "delivery_hour.given",
       "label.spaces", "label.upper", "keywords.n=0", "keywords.n=2", "groups.some", "exclude_groups.some",
       "outcome.accepted", "outcome.critical", "outcome.exception.validation", "outcome.exception.keyError",
       "cli.invalid", "cli.valid", "neardup.indexes", "neardup.trigger_flow_unknown"]
    + [f"neardup.{what}.{k}" for what in ("group", "flow") for k in ("ws", "case", "trailing")]
)


def make_cases(rng, n_main, n_invalid, n_edge):
    cases = []
    cid = 0
    for stream, n in (("main", n_main), ("invalid", n_invalid), ("edge", n_edge)):
        for _ in range(n):
            cid += 1
            sub = rng.getrandbits(48)
            cases.append(gen_case(random.Random(sub), cid, stream))
            cases[-1]["sub_seed"] = sub
    return cases


def run(ck: core.Check):
    ck.lean = core.lean_step("C19", thorough=(ck.tier == "thorough"))
    ck.rule = (
        "case = one content index: 1-3 flow sheets (send_message, add/remove group, start_new_flow), 0-2 campaign sheets and 0-2 "
        "trigger sheets of 0..8 rows, optional columns present/absent in shuffled order, cells padded with whitespace; streams: main "
        "(all rows valid), invalid (1-2 injected statement-invalid cells: every enum incl. blank/lower-case/doubled values, message "
        "event without text, K trigger without keyword), edge (non-integers, unusable labels, trigger without flow, empty group name), "
        "deterministic sweep of every enum value valid and invalid, known-finding stream; names: fixed pools or (1 index in 5) families of "
        "near-duplicates (equal up to one inner blank written as two blanks / tab / no-break space, up to letter case, up to a trailing "
        "character) for groups, created flows and event-only flows, used together in one index, a third of those (main stream) with one "
        "trigger naming a family member that nothing creates or names; deterministic near-duplicate corpus run first; "
        "non-trivial = at least one campaign/trigger row; "
        "distinct = distinct item lists"
    )
    ck.assumptions = [
        "CPython int()/str.strip/str.lower (ASCII) behave as modelled (int: exhaustive tie on short strings; lower: non-ASCII labels are oracle-only)",
        "pydantic v1 runs validators only for supplied fields, in declaration order, and reports all failing fields (exercised by the tie)",
        "statement reading: 'invalid match type' = match type of a keyword trigger outside {F, O, blank} (the code's own rule); a junk match type on other trigger types is neither required to be rejected nor to be accepted",
        "statement reading: the event uuid is not part of the stated field list, so the ignored `uuid` column is not a violation",
    ]
    ck.partial_gap = [
        "reference resolution (one name one uuid, equal to the flow's uuid) is not proved in Lean here (needs C06's UUID-dictionary model); it is evaluated directly on every real output",
        "trigger_match_type_full (every invalid match type rejected) holds only for keyword triggers: negative witness match_type_needs_keyword_trigger",
        "cells → row models (RowParser/CellParser) is C07-C09's theorem; here only tied (driver glue: strip, List[str] cells via the C08 model)",
    ]
    if not core.DRIVER_BIN.exists():
        raise core.Infra("driver not built:\n" + ck.lean.log[-2000:])
    import rpft.parsers.creation.contentindexparser  # noqa: F401  (fail early → infra)

    quick = ck.tier == "quick"
    n_main, n_inv, n_edge = (6000, 3000, 1500) if quick else (60000, 30000, 15000)
    cases = make_cases(ck.rng, n_main, n_inv, n_edge)
    sweep = enum_sweep_cases(10_000_000)
    known = known_cases(20_000_000)
    near = neardup_cases(30_000_000)

    def fold(results):
        for r in results:
            for k, n in r["strata"].items():
                ck.count(k, n)
            for key in r["keys"]:
                ck.case(key, nontrivial=True)
            for s in r["samples"]:
                if len(ck.samples) < 4:
                    ck.samples.append(s)
            for t in r["ties"]:
                if t is None:
                    ck.count("tie_break")
                else:
                    ck.tie_break("model and real campaign/trigger compiler differ: " + t["why"], t)
            for v in r["viol"]:
                ck.violation(v["what"], v)
            for fid, what, ex in r["known"]:
                if any(f["id"] == fid and f.get("status") == "open" for f in ck.findings):
                    ck.known(fid, next(f["what"] for f in ck.findings if f["id"] == fid), ex)
                else:
                    ck.violation(what + " (matches no open finding record)", ex)

    fold([case_worker(near + sweep + known)])
    fold(par.pmap(case_worker, core.shard(cases, par.NPROC * 2)))

    # direct ties
    labels = gen_labels(ck.rng, 1500 if quick else 20000)
    for r in par.pmap(fieldkey_worker, core.shard(labels, par.NPROC)):
        ck.count("fieldkey.labels", r["n"])
        ck.count("fieldkey.tied_to_model", r["n_tied"])
        ck.evaluations += r["n"]
        for t in r["ties"]:
            ck.tie_break("generate_field_key: model and real differ", t)
        for v in r["viol"]:
            ck.violation(v["what"], v)
    ck.nontrivial.update("label:" + s for s in labels)
    ints = list(all_int_strings(4 if quick else 5)) + ["1_000", "+1_2_3", " 12 ", "\t-7\n", "1__2", "12_", "0_0", "-+1", " 5 "]
    for r in par.pmap(int_worker, core.shard(ints, par.NPROC)):
        ck.count("int.strings", r["n"])
        ck.evaluations += r["n"]
        for t in r["ties"]:
            ck.tie_break("int(): model and CPython differ", t)

    # CLI sample: "rejected" in the CLI reading = the command exits non-zero
    simple = [c for c in sweep if c["stream"] in ("sweep", "sweep-invalid")]
    pick = simple[:: (3 if quick else 1)]
    for r in par.pmap(cli_worker, core.shard(pick, par.NPROC)):
        ck.evaluations += r["n"]
        for k, n in r["strata"].items():
            ck.count(k, n)
        for v in r["viol"]:
            ck.violation(v["what"], v)

    # generator self-check: every declared stratum was hit
    missing = [s for s in REQUIRED_STRATA if not ck.strata.get(s)]
    if missing:
        raise core.Infra("generator self-check: strata not reached: " + ", ".join(missing))
    for f in ck.findings:
        if f.get("status") == "open" and f["id"] not in ck.known_seen:
            ck.notes.append(f"open finding {f['id']} no longer reproduces")

    if (ck.tie_breaks or not ck.lean.ok) and not ck.violations:
        # obligation broken: failing-input search = larger generated set + neighbours of the
        # disagreeing cases, through the direct oracle on the real code
        ck.search_ran = True
        more = make_cases(random.Random(ck.seed + 1), 6000, 5000, 2000) if quick else make_cases(random.Random(ck.seed + 1), 12000, 8000, 4000)
        neigh = []
        for t in [t for t in ck.tie_breaks if t and isinstance(t["detail"].get("case"), dict)][:10]:
            base = t["detail"]["case"]
            for k in range(40):
                c = json.loads(json.dumps(base))
                c["stream"] = "invalid" if k % 2 else "edge"
                inject(random.Random(ck.seed * 1000 + k), c, INVALID_FAULTS if k % 2 else EDGE_FAULTS)
                c.pop("undefined_trigger_flow", None)
                neigh.append(c)
        for r in par.pmap(oracle_worker, core.shard(more + neigh, par.NPROC * 2)):
            ck.count("search.cases", r["n"])
            for v in r["viol"]:
                ck.violation(v["what"], v)


def replay(path):
    rec = json.load(open(path))
    print(json.dumps(rec, indent=1, ensure_ascii=False)[:6000])
    rp = rec.get("replay", {})
    case = rp.get("case") or (rp.get("detail") or {}).get("case")
    if isinstance(case, dict) and "items" in case:
        real = run_real(case)
        print("--- replay on the real code")
        print("exception:", real["exc"])
        print("records  :", [classify_record(r) for r in real["recs"]])
        if real["out"] is not None:
            print("campaigns:", json.dumps(real["out"]["campaigns"], ensure_ascii=False)[:3000])
            print("triggers :", json.dumps(real["out"]["triggers"], ensure_ascii=False)[:3000])
        fails = oracle(case, real)
        print("oracle   :", [w for w, _ in fails] or "holds")
        return 1 if fails else 0
    if "label" in rp:
        from rpft.rapidpro.models.common import generate_field_key

        try:
            print("generate_field_key ->", repr(generate_field_key(rp["label"])))
        except Exception as e:  # noqa: BLE001
            print("generate_field_key raised", repr(e))
    return 0
