"""C15 — Invalid input stops the command: non-zero exit and no flow file (proof, PARTIAL).

A  proof step: Rpft.Props.C15 (cli_file_iff, cli_error_keeps_file, valid_prefix_irrelevant,
   unterminated_detected, mismatched_detected, balanced_accepted, checkBlocks_ok_iff,
   block_fault_never_masked, row_fault_detected, the limit / argument / index detectors, …)
   re-checked by the kernel against tables regenerated from /repo (limits, HTTP methods,
   block_end_map, ShutdownHandler threshold, shape of cli.create_flows; tables_agree_detection: the LEVEL at
   which nine detection sites report — behaviour probes — and the word lists they test).
B  tie: for every injected fault the Lean model's prediction (`cli.predict` on an independent
   abstraction of the faulty workbook: status, file, fault kind, log-vs-exception) against what
   the REAL command did.
C  direct oracle: the statement itself on the real command (`python -m rpft.cli create_flows`
   as a subprocess): status ≠ 0, a problem is named on stderr / in errors.log (SOME report: a
   record of level ERROR/CRITICAL, a traceback or exception text — the exact wording per fault
   class is part of the tie B, so a reworded message is a tie break, not a violation), `--output`
   absent resp. byte-identical to a pre-existing sentinel; fault-free controls: status 0 and
   the file is complete JSON equal (up to invented uuids) to what the library returns.

Positions: besides rows / index rows / data rows of ordinary flows (also 2nd..nth flow, nested
index, inserted templates), the base workbook `redef` puts every fault class into definitions that
a LATER index row redefines and into definitions that REDEFINE an earlier one (flows from different
sheets with one new_name, bulk flows, campaigns of one name, a trigger sheet listed twice): the tool
parses every definition, so the fault must stop the command although the definition would not
reach the output.

Hostile surroundings: one fault case per class (in a flow that follows valid flows where the class has one) is also run
with a DIRECTORY named errors.log in the working directory, with a stale errors.log there, with -o naming an existing
file and with -o inside a directory that does not exist (oracle C only; fault workbooks only).
"""
from __future__ import annotations

import json
import re

from .. import c15_abs as A
from .. import c15_faults as F
from .. import c15_wb as W
from .. import core, par

MANIFEST = dict(
    text="Proof (partial): Lean model of the decision logic of `rpft create_flows` (file iff compilation returned; Except-propagation through index, flows, uuid dictionary, triggers; block-structure machine of _parse_block/_is_end_of_block; value limits; template-argument binding) with theorems for all inputs (any position, any nesting depth): cli_file_iff, cli_error_keeps_file, valid_prefix_irrelevant, unterminated_detected, mismatched_detected, balanced_accepted, checkBlocks_ok_iff (exactly the well-nested sheets pass), block_fault_never_masked, row_fault_detected, overlong_value/category, empty_text, bad_method, malformed_headers, arg_missing, arg_doubly_defined, uuid_conflict, trigger_unknown_flow, missing_sheet, unknown_operation, … ; tied to the code by T1 constants (640/115/36, HTTP methods, block_end_map, CRITICAL threshold, shape of cli.create_flows) and by fault enumeration against the REAL command: 13 valid base workbooks x 26 fault classes x every injection position (quick: sampled), each run as a subprocess with and without a pre-existing output file, predicted by the model (cli.predict). The five detection sites that used to log at ERROR level (index row of unknown type, wrong outcome condition on an edge leaving a start_new_flow / call_webhook / transfer_airtime row, unknown set_contact_ property, row type not implemented; repaired finding F-C15-a) are ordinary fault classes: modelled in Cli.lean in the order the code reaches them (sheet_name count before the index type; the row parser's KeyError for a type without main argument in a sheet with a message_text column before anything else, so 'not implemented' needs a sheet that spells the main-argument columns out), theorems unknown_index_type_detected/_stops_command, bad_flow_outcome_detected, bad_hook_outcome_detected, unknown_row_type_detected, unknown_contact_property_detected, main_arg_types_known, row_type_key_error_detected, and their report LEVEL is a T1 behaviour probe (tables_agree_detection). One fault case per class is also run in hostile surroundings (errors.log is a directory / stale errors.log in the working directory, -o naming an existing file / a path in a missing directory). Positions include flow / campaign / trigger definitions that a later index row redefines and definitions that redefine an earlier one (base 'redef'; theorems compileFlows_ok_iff, redefined_later_detected, redefining_earlier_detected: every definition is compiled whether or not it survives in the output) — every flow-level fault class is put into both kinds of position in every tier (strata class×position.*).",
    ref="§5 C15",
    note="PARTIAL: process termination mechanics (sys.exit inside a logging handler, uncaught exception, a crash during json.dump) live in the Python runtime and are observed, not proved (C15_full stays a visible def; C15_partial is proved). Trusts: Lean kernel (axioms audited each run), the harness's independent reading of a workbook into the abstract model input, Driver JSON codec, CPython process semantics. Oracle: 'names the problem' is violated only by output that is silent about a problem (no ERROR/CRITICAL record, no traceback/exception text); a report in other words than the model expects for the class is a model/code disagreement (tie break -> search), not a violation.",
    technique="Lean 4 proof (induction over row lists / nesting; Except propagation) + exhaustive fault-class x position enumeration against the real CLI predicted by the model",
)


def named(pattern: str, res) -> bool:
    """the output matches the message pattern the MODEL expects for this fault class (tie, not oracle)"""
    return re.search(pattern, res["stderr"] + "\n" + res["log"], re.S | re.M) is not None


# "names the problem on stderr or in its log": SOME problem report — a log record of level ERROR or CRITICAL,
# a traceback, or the final `SomeError: …` / `SomeException…` line of an uncaught exception.  The exact wording
# belongs to the tie (B), not to the property: a reworded message is a model/code disagreement, not a violation.
PROBLEM_REPORT = (r"\b(CRITICAL|ERROR)\b|Traceback \(most recent call last\)"
                  r"|^[ \t]*[A-Za-z_][\w.]*(Error|Exception)\b[^\n]*$")


def problem_reported(res) -> bool:
    return re.search(PROBLEM_REPORT, res["stderr"] + "\n" + res["log"], re.M) is not None


def observed_kinds(res):
    text = res["stderr"] + "\n" + res["log"]
    return sorted(k for k, p in F.KIND_PATTERNS.items() if re.search(p, text, re.S))


# kinds whose pattern is generic (an exception class only): their match says nothing about WHICH message was printed
GENERIC_KINDS = {"missingDataSheet"}


def report_skeleton(res) -> str:
    """the first problem report of a run with everything input-dependent taken out: level + message text
    without the processing stack, quoted values and numbers (`CRITICAL Template argument "…" doubly defined …`),
    or the class of the uncaught exception.  Two runs stopped by the same check have the same skeleton whatever
    the wording of that check's message is."""
    text = res["log"] + "\n" + res["stderr"]
    m = re.search(r"^(CRITICAL|ERROR): ([^\n]*)$", text, re.M)
    if m:
        rest = m.group(2)
        msg = rest.split(": ", 1)[1] if ": " in rest else rest       # drop the processing stack
        msg = re.sub(r'"[^"]*"|\'[^\']*\'', "…", msg)
        msg = re.sub(r"\{.*", "{…", msg)
        msg = re.sub(r"\d+", "#", msg)
        return m.group(1) + " " + " ".join(msg.split())[:160]
    m = re.findall(r"^[ \t]*([A-Za-z_][\w.]*(?:Error|Exception))\b", res["stderr"], re.M)
    return ("exception " + m[-1]) if m else ""


def slim(res):
    return {"rc": res["rc"], "stderr_tail": res["stderr"][-700:], "log_tail": res["log"][-500:],
            "output": None if res["out"] is None else ("sentinel" if res["out"] == W.SENTINEL else f"{len(res['out'])} bytes"),
            "others": res.get("others")}


def oracle_fault(case, res, sentinel: bool):
    """C: the property's own observable for a faulty workbook; returns list of failure texts.
    "Names the problem" fails only when the output is SILENT about a problem (no ERROR/CRITICAL record, no
    traceback / exception text on stderr or in errors.log); a report in other words than the class's expected
    message is a tie break (`wording_differs`), not a violation."""
    fails = []
    if res.get("timeout"):
        return ["command did not terminate (300 s, then 1500 s on a second attempt)"]
    if res["rc"] == 0:
        fails.append("exit status 0 although the workbook has a detected fault")
    if not problem_reported(res):
        fails.append("no problem is named on stderr or in errors.log (no ERROR/CRITICAL record, no traceback or exception text)")
    if sentinel:
        if res["out"] != W.SENTINEL:
            fails.append("pre-existing output file was overwritten or removed")
    elif res["out"] is not None:
        fails.append("output file created although the command failed")
    if res.get("others"):
        fails.append("unexpected files written: %s" % res["others"])
    return fails


def wording_differs(case, res) -> bool:
    """B: a problem IS reported, but not in the words expected for the injected fault class"""
    return not res.get("timeout") and problem_reported(res) and not named(case["pattern"], res)


def eval_cases(cases):
    """worker: real command (C) and model prediction (B) for a shard of fault cases"""
    drv = core.Driver()
    reqs = []
    for c in cases:
        w, a = A.abstract(c["wb"])
        c["_unsupported"] = a.unsupported
        reqs.append(dict(w, op="cli.predict", pre=("S" if c["modes"][0] else None)))
    preds = drv.results(reqs)
    out = []
    for c, pred in zip(cases, preds):
        rec = {"id": c["id"], "cls": c["cls"], "base": c["base"], "site": c["site"], "viol": [], "ties": [], "runs": 0,
               "pred": pred, "kinds": None, "wording": [], "kind_runs": []}
        for sentinel in c["modes"]:
            res = W.run_cli(c["wb"], sentinel)
            rec["runs"] += 1
            fails = oracle_fault(c, res, sentinel)
            if fails:
                rec["viol"].append({"what": "; ".join(fails), "sentinel": sentinel, "observed": slim(res)})
            # B: tie.  Disagreements that rest on the WORDING of a message only are kept apart (`wording`): fold()
            # decides per fault kind whether the message was reworded as a whole (every run of the kind reports in
            # the same new words — accepted, noted) or only some runs deviate (tie break).
            wd = wording_differs(c, res)
            if wd:
                rec["wording"].append({"what": "a problem is reported, but not with the message expected for this fault class",
                                       "expected_pattern": c["pattern"], "real": slim(res), "skeleton": report_skeleton(res), "k": None})
            if "__error__" in pred:
                rec["ties"].append({"what": "driver error", "detail": pred})
                continue
            kinds = observed_kinds(res)
            rec["kinds"] = kinds
            model_fail = pred["exit"] != 0
            real_fail = res["rc"] != 0
            if model_fail != real_fail or (real_fail and pred["exit"] != res["rc"]):
                rec["ties"].append({"what": "status differs", "model": pred, "real": slim(res)})
            elif model_fail and c["pattern"] == F.P_BLOCK_LOOSE and pred["fault"]["k"] not in kinds:
                # a consequence of the shifted block boundary surfaced at an earlier row (template variable
                # undefined, block without loose exit, …): outside this model; status and file are still tied
                rec["skipped"] = "consequence of a shifted block boundary surfaced first"
                if pred["fileUnchanged"] != (res["out"] == W.SENTINEL if sentinel else res["out"] is None):
                    rec["ties"].append({"what": "file presence differs", "model": pred, "real": slim(res)})
            elif model_fail:
                k = pred["fault"]["k"]
                for w in rec["wording"]:
                    w["k"] = w["k"] or k
                rec["kind_runs"].append([k, k in kinds])
                if k not in kinds and set(kinds) <= GENERIC_KINDS and problem_reported(res):
                    # no message of ANY known kind is recognised: the wording is unknown, not the kind different
                    rec["wording"].append({"what": "fault kind differs", "model": pred, "real_kinds": kinds, "real": slim(res),
                                           "skeleton": report_skeleton(res), "k": k})
                elif k not in kinds:
                    rec["ties"].append({"what": "fault kind differs", "model": pred, "real_kinds": kinds, "real": slim(res)})
                elif k not in c["kinds"]:
                    rec["ties"].append({"what": "model names a fault of another class than the injected one", "model": pred})
                via_log = "CRITICAL" in res["log"]
                if pred.get("viaLog") != via_log:
                    rec["ties"].append({"what": "log-vs-exception differs", "model": pred, "real": slim(res)})
                if pred["fileUnchanged"] != (res["out"] == W.SENTINEL if sentinel else res["out"] is None):
                    rec["ties"].append({"what": "file presence differs", "model": pred, "real": slim(res)})
            if c["_unsupported"]:
                rec["ties"].append({"what": "workbook outside the abstraction", "detail": c["_unsupported"]})
        out.append(rec)
    return out


def control_worker(items):
    """fault-free runs: status 0, complete JSON, equal to the library's result up to invented uuids"""
    from ..flows import rename_uuids_by_first_occurrence

    out = []
    for it in items:
        wb, sentinel = it["wb"], it["sentinel"]
        res = W.run_cli(wb, sentinel)
        fails = []
        doc = None
        if res["rc"] != 0:
            fails.append(f"valid workbook: exit status {res['rc']}")
        if res["out"] is None:
            fails.append("valid workbook: no output file")
        elif res["out"] == W.SENTINEL:
            fails.append("valid workbook: output file not written (sentinel still there)")
        else:
            try:
                doc = json.loads(res["out"].decode("utf-8"))
            except Exception as e:  # noqa: BLE001
                fails.append(f"output is not complete JSON: {e!r}")
        if doc is not None:
            try:
                lib = W.in_process(wb)
                keep = set(W.U)
                a = rename_uuids_by_first_occurrence(doc, keep)[0]
                b = rename_uuids_by_first_occurrence(json.loads(json.dumps(lib)), keep)[0]
                if a != b:
                    fails.append("output file differs from what converters.create_flows returns (beyond invented uuids)")
            except BaseException as e:  # noqa: BLE001
                fails.append(f"library run of the same workbook failed: {e!r}")
        if re.search(r"CRITICAL|Traceback", res["stderr"] + res["log"]):
            fails.append("valid workbook: an error was reported")
        out.append({"name": it["name"], "sentinel": sentinel, "fails": fails, "observed": slim(res),
                    "flows": len(doc["flows"]) if doc else None})
    return out


# fault classes that can sit inside a flow definition (its sheet, its create_flow row): each must be exercised in
# both redefinition positions in every tier (self-check in run())
REDEF_CLASSES = ["unterminated block", "mismatched block", "edge from unknown row", "loop without variable",
                 "go_to wrong number of targets", "go_to unknown target", "missing sheet", "missing data row",
                 "data_row_id without data_sheet", "missing template argument", "empty message text", "over-long value",
                 "over-long category name", "malformed webhook headers", "invalid webhook method", "conflicting uuids",
                 "bad outcome condition", "unknown row type", "unknown contact property"]


KNOWN_B = "F-C15-b"


def known_replaced_campaign_cases():
    """deterministic known-finding stream F-C15-b: a campaign definition that a later create_campaign row of the
    same name replaces is read (sheet, row validators) but never `parse()`d, so what only `CampaignParser.parse`
    detects — a message event without text, a non-integer offset / delivery hour — goes unnoticed there.  Each
    case comes with its twin: the same fault in the campaign that survives (must be, and is, detected)."""
    import random

    wb = W.base_redef(random.Random(0))
    out = []
    for what, change in (
        ("message event without text", {"event_type": "M", "message": "", "flow": ""}),
        ("offset that is not an integer", {"offset": "soon"}),
        ("delivery hour that is not an integer", {"delivery_hour": "noon"}),
    ):
        w, twin = W.wb_copy(wb), W.wb_copy(wb)
        w["sheets"]["campA"]["rows"][0].update(change)       # campA: replaced by the later row for campB (same new_name)
        twin["sheets"]["campB"]["rows"][-1].update(change)   # campB: the definition that survives
        out.append({"what": what, "wb": w, "twin": twin})
    return out


def known_replaced_campaign_worker(items):
    out = []
    for it in items:
        res, tw = W.run_cli(it["wb"], False), W.run_cli(it["twin"], False)
        out.append({"what": it["what"], "rc": res["rc"], "file": res["out"] is not None, "reported": problem_reported(res),
                    "twin_detected": tw["rc"] not in (0, None) and tw["out"] is None and problem_reported(tw),
                    "observed": slim(res), "twin_observed": slim(tw)})
    return out


def hostile_worker(items):
    """C only (the model has no file system): a fault case run in a hostile working directory / with a hostile -o path"""
    out = []
    for it in items:
        c, env = it["case"], it["env"]
        sentinel = env == "output file exists"
        res = W.run_cli(c["wb"], sentinel, env=env)
        out.append({"cls": c["cls"], "env": env, "fails": oracle_fault(c, res, sentinel), "observed": slim(res), "sentinel": sentinel})
    return out


def build_cases(bases, tier, rng):
    """fault class × base × site; quick: a seeded sample per (class, base) (first and last site of
    long site lists always included); the output-file mode alternates."""
    cases = []
    strata = {}
    n = 0
    build_cases.first = first = {}     # per fault class: the site for the hostile-environment runs (see hostile_cases)
    for wb in bases:
        _w, a = A.abstract(wb)
        for cls, (gen, kinds, listed) in F.CLASSES.items():
            sites = [(site, wbf, pattern, a.position_of(site)) for site, wbf, pattern in gen(wb, a)]
            strata[f"sites.{cls}"] = strata.get(f"sites.{cls}", 0) + len(sites)
            # deterministic: the first site of the class in enumeration order — but in base `multi`, whose third flow
            # sheet `last` follows two valid flows, the first site in THAT sheet takes precedence
            for site, wbf, pattern, _pos in sites:
                after_valid = wb["name"] == "multi" and site.get("sheet") == "last"
                if cls not in first or (after_valid and not first[cls]["after_valid"]):
                    first[cls] = {"cls": cls, "base": wb["name"], "site": site, "wb": wbf, "pattern": pattern, "after_valid": after_valid}
                if after_valid:
                    break
            for s in sites:
                if s[3]:
                    strata[f"sites.position.{s[3]}"] = strata.get(f"sites.position.{s[3]}", 0) + 1
            if tier == "quick" and len(sites) > 3:
                keep = {0, len(sites) - 1} if len(sites) > 40 else {rng.randrange(len(sites))}
                keep.add(rng.randrange(len(sites)))
                keep.add(rng.randrange(len(sites)))
                # position classes are part of the enumeration in every tier: one site of this fault class in each
                # kind of redefined definition (flow / campaign / trigger sheet × replaced later / replacing / both)
                for pos in sorted({s[3] for s in sites if s[3]}):
                    keep.add(rng.choice([i for i, s in enumerate(sites) if s[3] == pos]))
                sites = [s for i, s in enumerate(sites) if i in keep]
            for site, wbf, pattern, pos in sites:
                n += 1
                # thorough: every site; every 4th in both output-file modes, the others alternating
                modes = [False, True] if (tier != "quick" and n % 4 == 0) else [n % 2 == 0]
                cases.append({"id": n, "cls": cls, "base": wb["name"], "site": site, "wb": wbf, "pattern": pattern,
                              "kinds": sorted(kinds), "listed": listed, "modes": modes, "position": pos})
    return cases, strata


def run(ck: core.Check):
    ck.lean = core.lean_step("C15", thorough=(ck.tier == "thorough"))
    ck.rule = ("a case = (valid base workbook, fault class, injection site, output-file mode); sites enumerate every row / "
               "index row / data reference where the fault can be put (thorough: all; quick: a seeded sample per class and base, plus "
               "one site per class in each kind of redefined definition — replaced by a later index row / replacing an earlier one / both); "
               "every case is non-trivial (a real subprocess run of the command on a faulty workbook); distinct = distinct (base, class, site, mode)")
    ck.assumptions = [
        "the harness's reading of a CSV workbook into the abstract model input (c15_abs.py) is independent of the repo's parsers and trusted",
        "CPython: sys.exit / an uncaught exception end the process with status 1 before later statements run (observed on every case, not proved)",
    ]
    ck.partial_gap = [
        "process termination mechanics (sys.exit(1) inside ShutdownHandler.emit, uncaught exceptions) are observed by the enumeration, not proved: C15_full is a visible def, C15_partial is proved from it",
        "a crash during the final json.dump (partial file) is not modelled and not injected",
        "the flows themselves are abstract in this model (the document is an opaque value); only which check stops the run is modelled",
    ]
    if not core.DRIVER_BIN.exists():
        raise core.Infra("driver not built:\n" + ck.lean.log[-2000:])
    import rpft.converters  # noqa: F401

    quick = ck.tier == "quick"
    bases = W.all_bases(ck.seed)
    ck.extra["bases"] = [b["name"] for b in bases]

    # controls
    items = [{"wb": b, "name": b["name"], "sentinel": s} for b in bases for s in (False, True)]
    # boundary controls: a value of exactly 640 and a category name of exactly 115 characters are valid
    edge = W.wb_copy(bases[0])
    edge["name"] = "plain at the limits"
    for r in edge["sheets"]["main"]["rows"]:
        if r["type"] in ("save_value", "save_flow_result"):
            r["message_text"] = "v" * 640
        if r.get("condition_name"):
            r["condition_name"] = "C" * 115
    bases_ctl = bases + [edge]
    items.append({"wb": edge, "name": edge["name"], "sentinel": False})
    # controls for the injections that need a sheet without `message_text` column: every base with the main-argument
    # columns of its flow sheets spelt out is still valid, and so are the outcome words in another capitalisation
    for b in bases:
        x = F.with_explicit_columns(b, A.abstract(b)[1])
        x["name"] = b["name"] + " (main-argument columns spelt out)"
        bases_ctl.append(x)
        items.append({"wb": x, "name": x["name"], "sentinel": False})
    caps = W.wb_copy(next(b for b in bases if b["name"] == "webhook"))
    caps["name"] = "webhook, outcome words in capitals"
    for r in caps["sheets"]["hooks"]["rows"]:
        if r.get("condition") in ("Success", "Failure"):
            r["condition"] = r["condition"].upper()
    caps["sheets"]["second"]["rows"].append({"row_id": "s4", "type": "send_message", "from": "s3", "condition": "EXPIRED", "message_text": "late"})
    bases_ctl.append(caps)
    items.append({"wb": caps, "name": caps["name"], "sentinel": False})
    for r in [x for sh in par.pmap(control_worker, core.shard(items, par.NPROC)) for x in sh]:
        ck.case(("control", r["name"], r["sentinel"]), sample={"control": r["name"], "flows": r["flows"]})
        ck.count("control runs")
        for f in r["fails"]:
            wb = next(b for b in bases_ctl if b["name"] == r["name"])
            ck.violation(f, {"kind": "control", "workbook": wb, "sentinel": r["sentinel"], "observed": r["observed"]})

    # known-finding stream F-C15-b (deterministic): a fault that only CampaignParser.parse() detects, inside a campaign
    # definition that a later row replaces.  Attribution: trigger (replaced definition) + pattern (status 0, file
    # written, silent) + counterfactual (the same fault in the surviving definition IS detected).
    kb = known_replaced_campaign_cases()
    for it, r in zip(kb, [x for sh in par.pmap(known_replaced_campaign_worker, [[c] for c in kb]) for x in sh]):
        ck.case(("known-b", it["what"]))
        ck.count("known-finding stream (replaced campaign)")
        if not r["twin_detected"]:
            continue    # the tool does not detect this fault anywhere: not a "detected fault" of C15 (C19's business)
        if r["rc"] == 0 and r["file"] and not r["reported"]:
            ck.known(KNOWN_B, "a fault that the tool detects when it parses a campaign (message event without text, offset / delivery "
                     "hour that is not an integer) goes unnoticed in a campaign definition that a later create_campaign row of "
                     "the same name replaces (the replaced CampaignParser is never parse()d): status 0 and the output file is written",
                     {"what": it["what"], "observed": r["observed"], "same fault in the surviving definition": r["twin_observed"]})
        elif r["rc"] == 0 or r["file"]:
            ck.violation("fault in a replaced campaign definition (detected in the surviving one): status, report and output file disagree with each other",
                         {"kind": "fault", "class": "campaign fault in a replaced definition: " + it["what"], "pattern": "",
                          "workbook": it["wb"], "sentinel": False, "observed": r["observed"]})

    cases, strata = build_cases(bases, ck.tier, ck.rng)
    for k, v in strata.items():
        ck.count(k, v)
    fold(ck, cases, [x for sh in par.pmap(eval_cases, core.shard(cases, par.NPROC * 2)) for x in sh])

    missing = [c for c, (_g, _k, listed) in F.CLASSES.items() if not ck.strata.get(f"cases.{c}")]
    if missing:
        raise core.Infra(f"generator self-check: no case for fault classes {missing}")

    # hostile working directory / log file / output path: one fault case per class (a fault in a flow that follows
    # valid flows where the class has one), each in every environment of W.HOSTILE_ENVS.  FAULT workbooks only: a
    # valid workbook legitimately fails where the log file cannot be opened.  Oracle C as everywhere.
    hostile = [build_cases.first[c] for c in F.CLASSES if c in build_cases.first]
    items = [{"case": c, "env": e} for c in hostile for e in W.HOSTILE_ENVS]
    by_cls = {c["cls"]: c for c in hostile}
    for r in [x for sh in par.pmap(hostile_worker, core.shard(items, par.NPROC * 2)) for x in sh]:
        c = by_cls[r["cls"]]
        ck.case(("hostile", r["cls"], r["env"]), sample={"class": r["cls"], "environment": r["env"], "base": c["base"], "site": c["site"]})
        ck.count("hostile environment." + r["env"])
        ck.count("hostile environment: fault in a flow that follows valid flows" if c["after_valid"] else "hostile environment: first site of the class")
        ck.count("subprocess runs")
        for f in r["fails"]:
            ck.violation(f"{r['cls']} [{r['env']}]: {f}",
                         {"kind": "fault", "class": r["cls"], "base": c["base"], "site": c["site"], "pattern": c["pattern"], "env": r["env"],
                          "sentinel": r["sentinel"], "workbook": c["wb"], "observed": r["observed"]})
    if len({c["cls"] for c in hostile}) != len(F.CLASSES) or not any(c["after_valid"] for c in hostile):
        raise core.Infra("generator self-check: hostile-environment subset does not cover every fault class / no fault after a valid flow")
    # … and every fault class that lives in a flow sheet / a create_flow row must have been put into a definition
    # that a later row redefines AND into one that redefines an earlier one
    AB = A.Abstraction
    need = [(c, "flow definition " + p) for c in REDEF_CLASSES for p in (AB.LATER, AB.EARLIER)]
    # campaign parsers are created (sheet read, rows validated) when their index row is read, trigger parsers too
    need += [("missing sheet", k + " " + p) for k in ("campaign definition", "trigger sheet") for p in (AB.LATER, AB.EARLIER)]
    need.append(("trigger for unknown flow", "trigger sheet " + AB.BOTH))
    missing = [(c, p) for c, p in need if not ck.strata.get("class×position.%s | %s" % (c, p))]
    if missing:
        raise core.Infra(f"generator self-check: no case for (fault class, redefinition position) {missing}")

    if (ck.tie_breaks or not ck.lean.ok) and not ck.violations and quick:
        ck.search_ran = True
        more, _ = build_cases(bases, "thorough", ck.rng)
        seen = {(c["base"], c["cls"], json.dumps(c["site"], sort_keys=True)) for c in cases}
        more = [c for c in more if (c["base"], c["cls"], json.dumps(c["site"], sort_keys=True)) not in seen]
        ck.rng.shuffle(more)
        more = more[:1500]
        for c in more:
            c["modes"] = [c["id"] % 2 == 0]
        fold(ck, more, [x for sh in par.pmap(eval_cases, core.shard(more, par.NPROC * 2)) for x in sh], search=True)


def fold(ck, cases, recs, search=False):
    by_id = {c["id"]: c for c in cases}
    # wording-only disagreements, per model fault kind: reworded as a whole, or deviating runs?
    recognised, unknown = {}, {}
    for r in recs:
        for k, ok in r.get("kind_runs", []):
            recognised[k] = recognised.get(k, 0) + (1 if ok else 0)
        for w in r.get("wording", []):
            unknown.setdefault(w["k"] or ("class " + r["cls"]), []).append((r, w))
    for k, items in sorted(unknown.items(), key=lambda kv: str(kv[0])):
        skeletons = sorted({w["skeleton"] for _, w in items})
        if not recognised.get(k) and all(skeletons) and len(skeletons) <= 5:
            # every run the model stops with this kind reports a problem at the predicted severity, none in the words
            # on record, all in the same few new words: the message was reworded (behaviour tied by status / route / file)
            ck.count("wording.reworded." + str(k), len(items))
            ck.notes.append(f"messages of fault kind {k} are not the recorded wording in any of {len(items)} runs; now: {skeletons}")
            continue
        for r, w in items:
            c = by_id[r["id"]]
            ck.tie_break(f"{c['cls']}: {w['what']}", {"base": c["base"], "site": c["site"], "detail": {x: y for x, y in w.items() if x != "k"},
                                                      "workbook": c["wb"]})
    for r in recs:
        c = by_id[r["id"]]
        for m in c["modes"]:
            ck.case((c["base"], c["cls"], json.dumps(c["site"], sort_keys=True), m),
                    sample={"base": c["base"], "class": c["cls"], "site": c["site"], "model": r["pred"].get("fault")})
        ck.count(("search." if search else "cases.") + c["cls"])
        ck.count("subprocess runs", r["runs"])
        ck.count("base." + c["base"])
        if c.get("position"):
            ck.count(("search." if search else "cases.") + "position." + c["position"])
            ck.count("class×position.%s | %s" % (c["cls"], c["position"]))
        if r["pred"].get("fault"):
            ck.count("model fault." + r["pred"]["fault"]["k"])
        if r.get("skipped"):
            ck.count("tie not applicable: " + r["skipped"])
        for v in r["viol"]:
            ck.violation(f"{c['cls']}: {v['what']}",
                         {"kind": "fault", "class": c["cls"], "base": c["base"], "site": c["site"], "pattern": c["pattern"],
                          "sentinel": v["sentinel"], "workbook": c["wb"], "observed": v["observed"]})
        for t in r["ties"]:
            ck.tie_break(f"{c['cls']}: {t['what']}", {"base": c["base"], "site": c["site"], "detail": t, "workbook": c["wb"]})


def replay(path):
    rec = json.load(open(path))
    rp = rec.get("replay", {})
    print(json.dumps({k: v for k, v in rec.items() if k != "replay"}, indent=1, ensure_ascii=False)[:3000])
    wb = rp.get("workbook") or (rp.get("detail") or {}).get("workbook")
    if not wb:
        print(json.dumps(rp, indent=1, ensure_ascii=False)[:3000])
        return 0
    print("class:", rp.get("class"), " base:", rp.get("base"), " site:", rp.get("site"))
    for n, t in W.csv_texts(wb).items():
        print(f"--- {n}.csv\n{t}", end="")
    bad = 0
    for sentinel in ((rp["sentinel"],) if rp.get("env") else (False, True)):
        res = W.run_cli(wb, sentinel, env=rp.get("env"))
        print(f"--- real command, pre-existing output file: {sentinel}" + (f", environment: {rp['env']}" if rp.get("env") else ""))
        print(json.dumps(slim(res), indent=1, ensure_ascii=False))
        if rp.get("kind") == "control":
            ok = res["rc"] == 0 and res["out"] not in (None, W.SENTINEL)
        else:
            fails = oracle_fault({"pattern": rp.get("pattern", "")}, res, sentinel)
            print("oracle:", fails or "holds")
            if rp.get("pattern") and wording_differs({"pattern": rp["pattern"]}, res):
                print("tie: a problem is reported, but not with the expected message /%s/" % rp["pattern"])
            ok = not fails
        bad += not ok
    w, a = A.abstract(wb)
    print("model:", core.Driver().results([dict(w, op="cli.predict")])[0])
    return 1 if bad else 0
