"""C04 — flow JSON → sheet file → flow JSON preserves behaviour (through real files).

Every generated flow definition (foreign-style exports and outputs of the real compiler) is
written by the REAL `flows_to_sheets` to real csv / xlsx files (± strip_uuids, ± numbered), read
back by the real sheet readers, recompiled by the real FlowParser, and compared with the
original by the Lean-verified bisimulation certificate checker at C04's observation level
(action content, operands, tests, arguments, test order, category names, timeouts, destinations).
"""
from __future__ import annotations

import json
import os
import random
import shutil
import tempfile

from .. import actcodec as AC
from .. import core, par
from ..flows import LogCapture, canon_action, canon_flow, compile_flow_sheet
from ..gen import flowjson as FJ
from ..gen import sheets as G

MANIFEST = dict(
    text="Proof: (1) Lean theorem roundtrip_equiv_of_cert (validated bisimulation certificate ⇒ equal traces for every contact input sequence at the observation level of C04's statement: action content, operands, tests, arguments, test order, category names, timeouts, destinations) applied by the driver to each original flow and the flow recompiled from the REAL files written by flows_to_sheets (csv/xlsx × strip_uuids × numbered); plus per-flow checks of uuid / node-grouping preservation without --strip_uuids. (2) 'same actions with the same content' is proved universally on a Lean model of the action codec (Rpft/ActionCodec.lean: toFields = Action.get_row_model_fields of every action class + FlowRowModel validation; ofFields = FlowParser._get_row_action / _get_row_node): theorem action_roundtrip — for EVERY action inside the explicit decidable predicate Expressible (unbounded texts, attachment / quick-reply / variable lists, header and amount dictionaries) the exported row fields compile back to exactly that one action, content equal up to the invented action / templating-instance uuid; expressible_iff_roundtrip — Expressible is EXACTLY the set of actions that come back intact (so no clause can be dropped), with a kernel-checked negative witness per clause (needs_…) replayed on the real code; group actions with ANY number of groups: group_action_comes_back / group_names_roundtrip (every group name comes back, in order, for every list), expressibleMod_iff_roundtrip — the round trip is exact up to the uuids of the groups after the first (obj_id is one cell: it carries the first group's uuid), exactly on ExpressibleModTailUuids, and expressible_iff_mod_and_tail_uuids — fully intact iff moreover those uuids are the ones a sheet gives back (witness needs_tail_uuids_kept = open finding F-C04-g); action_roundtrip_merged — the same for rows merged into an existing node (compiled by _get_row_action alone); constants tied by tables_agree_actcodec. exported_row_ids_unique (both id modes). (3) The EXPORTER preserves the flow's graph, universally (Props/C04_Graph.lean, on the exporter model Rpft/Export.lean that the C17 check ties to the real to_rows on every generated flow): the sheet is READ as a graph the way the sheet compiler resolves it (Rpft/ExportGraph.lean: an edge cell leaves the row named in `from` and enters its own row, on a go_to row the row named there; rows top to bottom, cells left to right = the order in which a router gets its cases back) and for EVERY flow (joins, cycles, self loops, parallel edges, unreachable nodes, duplicate uuids, dangling exits; unbounded) — export_preserves_graph: the node rows of the sheet are exactly the rows of the nodes reachable from the first node, each node once, rows consecutive and in order with their content (payloads_preserved, unreachable_not_exported), and the graph read from the sheet is, as a multiset, exactly: the start edge, the blank edges chaining the rows of one node, and ONE edge per exit that has a destination, with the exit's label, from the node's LAST row to the FIRST row of the destination node, directly or through a go_to row with exactly one edge and one target (out_edges_perm, exit_target_exported, export_no_invented_edges); exits that lead nowhere leave no trace (export_drops_dangling_exits = finding F-C04-a as a theorem, witness dangling_category_vanishes). Rows of one node: the compiler's merge rule (a row joins the node its _nodeId names iff it has exactly one edge, unconditional, from a row of that node) regroups the rows of an exported sheet exactly as the exporter grouped them (rows_grouped_as_exported), and the NODE graph read with that merging is the start edge plus one edge per connected exit between the reachable nodes (node_graph_preserved); without _nodeId every row is its own node (ungrouped_without_node_ids). ORDER of the edges leaving a node = order in which the recompiled router gets its tests: edges into the same row always keep their exit order (out_edges_same_target_order); the whole exit order is kept when no edge of the node was prepended to an existing row (out_edges_order_of_not_prepended; in particular on sheets without joins, out_edges_order_of_join_free; cycles and self loops allowed), and for a node without go_to edge it is kept IF AND ONLY IF the targets of its exits stand in the sheet in exit order (out_edges_order_iff_targets_sorted) — the negation is exactly finding F-C04-b, kernel-checked witness order_changes_at_join (t1→x, t2→y, y→x comes back as t2, t1), negative witnesses for every hypothesis. Errors: export_ok_iff (accepted iff every reachable node has a row model and every reachable exit names a node), export_error_cases / export_noNode_iff / export_noRows_iff, stripped_error_iff (the id remapping never fails: every id a row mentions is the id of a row). export_preserves_graph_stripped: the final rows (readable or numbered ids) are the temp-id rows renamed by a function injective on the row ids that never yields the literal start, so every statement holds for the final sheet. PATHS (Props/C04_Paths.lean): the graph result lifted to behaviour — two labelled transition systems over exit labels, the flow (FlowStep: exit (l, some d) and find_node d) and the sheet as the compiler reads it with node merging (Sheet.Step: an edge, read through go_to rows, from the LAST row of a group of rows into the group of its target row); for EVERY accepted flow, relationally (no determinism assumed): sheet_start, node_group_exported (the group of a reachable node = its rows, in order, same payloads, linked by the blank chain edges), sheet_nodes_are_flow_nodes, firstId_injective, export_step (one-step correspondence both ways), export_out_perm, export_paths (for every label sequence the sheet paths from the group of a reachable node are exactly the images of the flow paths: a functional bisimulation node -> its group of rows), export_simulates / export_simulated_by / export_paths_from_start (same end node, same payload trace), dangling_label_no_step (F-C04-a: a label whose exit leads nowhere is a transition on neither side; 'ends there' is not claimed), out_order_iff_edges_order, export_test_order_of_join_free / export_test_order_of_not_prepended / export_test_order_iff_targets_sorted / export_test_order_paths (under the order criterion every node along a path has the same ORDERED (label, target) list: first-match takes the same branch), export_deterministic under the decidable LabelsDistinct (witness needs_labels_distinct); final sheet in both id modes at the row level (--strip_uuids: every row its own node): export_row_paths, export_row_paths_final (the row graph is the flow with every node expanded into the chain of its row models), flowStep_expands; witnesses exG_flow_path, exG_sheet_path, exG_path_trace, exG_row_path (self loop, cycle, join). Open: final_grouping_renamed_full (merge rule under an injective renaming of row ids). Tie: the Lean reading (driver op export.graph) of the REAL rows of the real to_rows (both id modes) is compared on every generated flow of the flow stream (also outside Expressible) with the real flow's edge list and with each of these statements. Universal over whole flows (exporter + cells + compiler composed) only per explored flow (C04_full visible).",
    ref="§5 C04",
    note="Trusts: Lean kernel; certificate search untrusted; harness canonicalisers (flows.canon_flow, actcodec.canon_action); Python mirror of the exporter DFS (gen/flowjson.py order_stable) defines the OrderStable part of the flow domain; CPython float(repr(x)) == x (a float amount is carried as its repr text); the cell layer between row model and sheet is C07's model — here it is exercised on the real code only (direct oracle through the real RowDataSheet / SheetParser, single row and shared sheet). Action codec model is tied on generated actions of every kind (mostly expressible + one-clause-broken + pass-through types) and on generated row fields (valid and malformed) with ASCII-cased names and ASCII digits. Flow domain `Expressible` (gen/flowjson.py docstring); action domain `ActionCodec.Expressible`. Known findings exercised deterministically outside the main streams: F-C04-a (unconnected conditional categories vanish), F-C04-b (test order at joins), F-C04-d (webhook headers), F-C04-e (group-split category names), F-C04-f (webhook body next to a message_text column), F-C04-g (narrowed after the repair F-C04-k: without --strip_uuids the uuids of the groups AFTER THE FIRST of a group action are not carried — obj_id is one cell; main streams generate multi-group actions and compare them up to exactly that), F-C04-h (field key regenerated from the field name), F-C04-i (set_contact_channel exported under message_text), F-C04-j (templating variables padded to the longest list of the sheet).",
    technique="Lean 4 proof of certificate soundness + verified checker on original vs recompiled-from-real-files flow; Lean 4 proof of the action codec round trip (all expressible actions) + differential tie and direct oracle on the real export / compile code",
)

LVL = {"catNames": True, "resultName": False}


def roundtrip(doc, fmt, strip, numbered, workdir):
    """real exporter → real file → real reader → real compiler; returns (doc2 | None, error | None)"""
    from rpft import converters
    from rpft.parsers.creation.flowparser import FlowParser
    from rpft.parsers.sheets import CSVSheetReader, XLSXSheetReader
    from rpft.rapidpro.models.containers import RapidProContainer

    d = tempfile.mkdtemp(dir=workdir)
    try:
        with open(os.path.join(d, "in.json"), "w", encoding="utf-8") as f:
            json.dump(doc, f)
        out = os.path.join(d, "out")
        os.mkdir(out)
        with LogCapture() as cap:
            try:
                converters.flows_to_sheets(os.path.join(d, "in.json"), out, fmt, strip, numbered)
                cont = RapidProContainer()
                for fl in doc["flows"]:
                    name = fl["name"]
                    if fmt == "csv":
                        table = CSVSheetReader(out).sheets[name].table
                    else:
                        rd = XLSXSheetReader(os.path.join(out, f"{name}.xlsx"))
                        table = list(rd.sheets.values())[0].table
                    FlowParser(cont, name, table).parse()
                doc2 = cont.render()
            except Exception as e:  # noqa: BLE001
                return None, f"{type(e).__name__}: {e}"[:300]
        if cap.errors():
            return None, "log: " + "; ".join(cap.errors()[:2])
        return doc2, None
    finally:
        shutil.rmtree(d, ignore_errors=True)


def carried_group_uuids(f1):
    """name ↦ uuid of the group references whose uuid an exported sheet carries: the FIRST group of an
    add/remove-groups action (obj_id of its row) and the group of the FIRST has_group case of a group split (obj_id of its row)"""
    out = {}
    for n in f1["nodes"]:
        for a in n.get("actions", []):
            if a.get("type") in ("add_contact_groups", "remove_contact_groups") and a.get("groups") and a["groups"][0].get("uuid"):
                out.setdefault(a["groups"][0]["name"], a["groups"][0]["uuid"])
        r = n.get("router") or {}
        for k in (r.get("cases") or [])[:1]:   # a split_by_group row has ONE obj_id too: the group of its first case
            if r.get("operand") == "@contact.groups" and k.get("type") == "has_group" and len(k.get("arguments", [])) > 1 and k["arguments"][0]:
                out.setdefault(k["arguments"][1], k["arguments"][0])
    return out


def keep_checks(f1, f2, tail_lost=None):
    """without --strip_uuids: node identifiers, node grouping of actions, group / flow uuids preserved.
    Open finding F-C04-g (narrowed): the uuid of a group AFTER THE FIRST of a group action is not carried by the sheet
    (obj_id is one cell); it comes back resolved by name — preserved when the name's uuid is carried elsewhere in the
    sheet, invented otherwise.  Exactly that (trigger: several groups, the further one has a uuid, no carrier;
    pattern: only that uuid differs, the new one is a fresh non-empty uuid) is counted in `tail_lost`, not reported."""
    problems = []
    carried = carried_group_uuids(f1)
    n2 = {n["uuid"]: n for n in f2["nodes"]}
    for n in f1["nodes"]:
        if n["uuid"] not in n2:
            problems.append(f"node {n['uuid']} is gone")
            continue
        m = n2[n["uuid"]]
        a1 = [canon_action(a)["obs"] for a in n.get("actions", [])]
        a2 = [canon_action(a)["obs"] for a in m.get("actions", [])]
        if a1 != a2:
            problems.append(f"node {n['uuid']}: actions regrouped or altered: {a1} vs {a2}")
        for x, y in zip(n.get("actions", []), m.get("actions", [])):
            if x.get("type") in ("add_contact_groups", "remove_contact_groups"):
                gx, gy = x["groups"], y.get("groups", [])
                if len(gx) != len(gy) or [g["name"] for g in gx] != [g["name"] for g in gy]:
                    problems.append(f"node {n['uuid']}: groups of an action not preserved")
                    continue
                for i, (g, h) in enumerate(zip(gx, gy)):
                    if g.get("uuid") == h.get("uuid"):
                        continue
                    if i > 0 and g.get("uuid") and g["name"] not in carried and h.get("uuid") and h["uuid"] not in carried.values():
                        if tail_lost is not None:
                            tail_lost.append({"node": n["uuid"], "group": g["name"], "uuid": g["uuid"], "comes_back_with": h["uuid"]})
                        continue
                    problems.append(f"node {n['uuid']}: group uuid not preserved" + (" (a group after the first whose uuid the sheet carries elsewhere)" if i > 0 else ""))
            if x.get("type") == "enter_flow" and x["flow"].get("uuid") != y.get("flow", {}).get("uuid"):
                problems.append(f"node {n['uuid']}: sub-flow uuid not preserved")
    return problems


def check_one(drv, doc, fmt, strip, numbered, workdir, tail_lost=None):
    """returns None if fine, else dict describing the failure"""
    doc2, err = roundtrip(doc, fmt, strip, numbered, workdir)
    if err:
        return {"what": "exported sheet cannot be compiled again", "error": err}
    out = None
    for f1, f2 in zip(doc["flows"], doc2["flows"]):
        ans = drv.results([{"op": "flow.bisim", "a": canon_flow(f1), "b": canon_flow(f2), "lvl": LVL}])[0]
        if "__error__" in ans:
            raise core.Infra(str(ans))
        if not ans.get("equiv"):
            return {"what": "recompiled flow behaves differently from the original", "distinguishing_choice_sequence": ans.get("path"),
                    "original_then": ans.get("a"), "recompiled_then": ans.get("b")}
        if not strip:
            p = keep_checks(f1, f2, tail_lost)
            if p:
                return {"what": "without --strip_uuids: " + p[0], "problems": p[:5]}
        out = ans
    return None


def graph_tie(drv, doc, bump=lambda k, v=1: None):
    """Props/C04_Graph.lean on the REAL exporter output.  The Lean READING of a sheet as a graph
    (Rpft/ExportGraph.lean: edgesOfS = edge cells resolved the way the sheet compiler resolves them, groupRows =
    node merging by _nodeId, nodeEdges; driver op export.graph) is applied to the rows the REAL to_rows returns
    (both id modes) and compared with the REAL flow's edge list (nodes reachable from the first node, exits with a
    destination, find_node = first node with that uuid) and with the statements of the theorems: nodes of the sheet
    = reachable nodes, each once; node graph read from the sheet = start edge + one edge per connected exit
    (multiset: export_preserves_graph, no invented edge, dangling exits dropped); edges into the same node keep
    their exit order (out_edges_same_target_order); exit order kept when no edge of the node was prepended
    (out_edges_order_of_not_prepended); for nodes without go_to edge: exit order kept IFF the targets stand in the
    sheet in exit order (out_edges_order_iff_targets_sorted, = finding F-C04-b).  Returns the disagreements."""
    import collections

    from rpft.rapidpro.models.containers import RapidProContainer

    from . import c17

    out = []
    for fi in range(len(doc["flows"])):
        try:
            nodes = c17.model_input(RapidProContainer.from_dict(doc).flows[fi])
        except Exception:  # noqa: BLE001 — a node the real objects cannot describe (counted by C17)
            continue
        first = {}
        for n in nodes:
            first.setdefault(n["uuid"], n)
        reach, todo, ok = [], ([nodes[0]["uuid"]] if nodes else []), True
        while todo:
            u = todo.pop()
            if u in reach:
                continue
            if u not in first:
                ok = False
                break
            reach.append(u)
            todo += [d for _, d in first[u]["edges"] if d]
        if not ok or not nodes or any(not first[u]["rows"] for u in reach):
            bump("graph.flow_not_exportable")        # export_ok_iff: the real to_rows raises (tied by C17)
            continue
        want = {u: [(lab, d) for lab, d in first[u]["edges"] if d] for u in reach}
        bump("graph.exits_leading_nowhere", sum(1 for u in reach for _, d in first[u]["edges"] if not d))
        bump("graph.unreachable_nodes", len(set(first) - set(reach)))
        for numbered in (False, True):
            rows = RapidProContainer.from_dict(doc).flows[fi].to_rows(numbered)
            req = {"op": "export.graph", "rows": [
                {"id": r.row_id, "node": r.node_uuid or None, "edges": [[e.from_, c17._label(e.condition)] for e in r.edges],
                 "goto": list(r.mainarg_destination_row_ids)} for r in rows]}
            ans = drv.results([req])[0]
            ctx = {"flow": doc["flows"][fi].get("name"), "numbered": numbered}
            if "__error__" in ans:
                raise core.Infra(str(ans))
            bump("graph.sheets_read")
            if any((r.type == "go_to") != bool(r.mainarg_destination_row_ids) for r in rows):
                out.append({"what": "export graph: a go_to row without destination, or a node row with one", **ctx})
                continue
            pos = {r.row_id: i for i, r in enumerate(rows)}
            node_of = {r.row_id: r.node_uuid for r in rows if r.type != "go_to"}
            rep = dict(map(tuple, ans["groups"]))
            seen, last = {}, {}
            for r in rows:
                if r.type != "go_to":
                    seen.setdefault(r.node_uuid, r.row_id)
                    last[r.node_uuid] = r.row_id
                    if rep.get(r.row_id) != seen[r.node_uuid]:   # the compiler's merge rule regroups the rows as the exporter grouped them
                        out.append({"what": "export graph: a row is not merged into the node its _nodeId names", "row": r.row_id, "merged_into": rep.get(r.row_id), **ctx})
            if len(seen) != len(reach) or set(seen) != set(reach):
                out.append({"what": "export graph: the nodes of the sheet are not the reachable nodes", "sheet": list(seen), "reachable": reach, **ctx})
                continue
            got = collections.Counter((node_of.get(s) if s is not None else None, lab, node_of.get(d)) for s, lab, d in ans["node_edges"])
            exp = collections.Counter([(None, "", nodes[0]["uuid"])] + [(u, lab, d) for u in reach for lab, d in want[u]])
            if got != exp:
                out.append({"what": "export graph: the graph read from the sheet differs from the flow's edge list",
                            "only_in_sheet": [list(k) for k in (got - exp)][:5], "only_in_flow": [list(k) for k in (exp - got)][:5], **ctx})
                continue
            bump("graph.edges_compared", sum(exp.values()))
            changed_tests = False
            for u in reach:
                sheet = [(lab, node_of[d]) for s, lab, d in ans["edges"] if s == last[u]]
                exits = want[u]
                same = sheet == exits
                changed_tests = changed_tests or [x for x in sheet if x[0]] != [x for x in exits if x[0]]
                if len(exits) > 1:
                    bump("graph.order.preserved_nodes" if same else "graph.order.changed_nodes")
                for t in set(d for _, d in exits):
                    if [a for a, b in sheet if b == t] != [a for a, b in exits if b == t]:
                        out.append({"what": "export graph: edges into the same node do not keep their exit order", "node": u, "target": t, **ctx})
                if not same and not any(e.from_ == last[u] for r in rows for e in r.edges[:-1]):
                    out.append({"what": "export graph: no edge of the node was prepended, yet its exit order changed", "node": u, "sheet": sheet, "exits": exits, **ctx})
                if not any(e.from_ == last[u] for r in rows if r.type == "go_to" for e in r.edges):
                    p = [pos[seen[d]] for _, d in exits]
                    srt = all(p[i] <= p[i + 1] for i in range(len(p) - 1))
                    if srt != same:
                        out.append({"what": "export graph: exit order kept iff targets stand in exit order — violated", "node": u, "targets_sorted": srt, "order_kept": same, **ctx})
                    if len(exits) > 1:
                        bump("graph.order.exact_criterion_applies")
            if not numbered and not FJ.order_stable(doc["flows"][fi]):
                bump("graph.not_order_stable.reading_shows_permuted_tests" if changed_tests else "graph.not_order_stable.reading_shows_same_tests")
    return out


CONFIGS = [(f, s, n) for f in ("csv", "xlsx") for s in (False, True) for n in (False, True)]


def expressible(doc) -> bool:
    for f in doc["flows"]:
        if not f["nodes"] or not FJ.reachable_all(f) or not FJ.order_stable(f):
            return False
        for n in f["nodes"]:
            r = n.get("router")
            if not r:
                for a in n.get("actions", []):
                    pass
                continue
            ex = {e["uuid"]: e.get("destination_uuid") for e in n["exits"]}
            if r["type"] == "random":
                if not r["categories"] or any(not ex.get(c["exit_uuid"]) for c in r["categories"]):
                    return False
                continue
            d = r["default_category_uuid"]
            t = (r.get("wait") or {}).get("timeout", {}).get("category_uuid")
            cats = {c["uuid"]: c for c in r["categories"]}
            # one case per category, in category order; connected
            other = [c for c in r["categories"] if c["uuid"] not in (d, t)]
            case_cats = [k["category_uuid"] for k in r["cases"] if k["category_uuid"] not in (d, t)]
            if case_cats != [c["uuid"] for c in other]:
                return False
            special = r["operand"] == "@child.run.status" or (n.get("actions") and n["actions"][0]["type"] in ("call_webhook", "transfer_airtime"))
            if not special:
                if any(k["category_uuid"] == t for k in r["cases"]):
                    return False
                # a rule filed under the default category is expressible (the default exit is then written as
                # that rule's edge, named like the category) when it is the only such rule, the last test, and
                # the default exit leads somewhere
                filed = [i for i, k in enumerate(r["cases"]) if k["category_uuid"] == d]
                if filed and (filed != [len(r["cases"]) - 1] or not ex.get(cats[d]["exit_uuid"])):
                    return False
                if any(not ex.get(c["exit_uuid"]) for c in other):
                    return False
                if any(len(k["arguments"]) > (2 if k["type"] == "has_group" else 1) for k in r["cases"]):
                    return False
            if r["operand"] == "@contact.groups":
                if not r["cases"]:
                    return False
                if any(cats[k["category_uuid"]]["name"] != "None_" + k["arguments"][1].title() for k in r["cases"]):
                    return False
            for a in n.get("actions", []):
                if a["type"] == "call_webhook" and (a.get("headers") or a.get("body")):
                    return False
    return True


def compiled_doc(rng):
    rows = G.gen_core_sheet(rng, rng.randint(2, 14), noop=False)
    r = compile_flow_sheet(G.HEADERS, rows)
    return r.doc if r.ok else None


def worker(args):
    seed, n, maxnodes, all_configs, workdir = args
    rng = random.Random(seed)
    drv = core.Driver()
    stats = {}
    bad, keys, ties = [], [], []
    sample = None

    def bump(k, v=1):
        stats[k] = stats.get(k, 0) + v

    for _ in range(n):
        if rng.random() < 0.6:
            src = "foreign"
            doc = FJ.gen_container(rng, rng.randint(1, maxnodes), special_text=rng.random() < 0.7)
        else:
            src = "compiled"
            doc = compiled_doc(rng)
            if doc is None:
                continue
        bump("generated." + src)
        gt = graph_tie(drv, doc, bump)
        ties += [dict(t, document=doc) for t in gt[:2]]
        if not expressible(doc):
            bump("outside_expressible." + src)
            continue
        bump("expressible." + src)
        f = doc["flows"][0]
        bump("nodes", len(f["nodes"]))
        indeg = {}
        for nd in f["nodes"]:
            for e in nd["exits"]:
                if e.get("destination_uuid"):
                    indeg[e["destination_uuid"]] = indeg.get(e["destination_uuid"], 0) + 1
        bump("flows_with_join", any(v > 1 for v in indeg.values()))
        bump("flows_with_router", any(nd.get("router") for nd in f["nodes"]))
        bump("flows_with_multi_group_action", any(len(a.get("groups", [])) > 1 for nd in f["nodes"] for a in nd.get("actions", [])))
        cfgs = CONFIGS if (all_configs or gt) else rng.sample(CONFIGS, 2)
        keys.append(json.dumps(doc, sort_keys=True))
        if sample is None:
            sample = {"flow": f["nodes"][:2], "configs": cfgs}
        for fmt, strip, numbered in cfgs:
            bump(f"config.{fmt}.{'strip' if strip else 'keep'}.{'numbered' if numbered else 'named'}")
            lost = []
            fail = check_one(drv, doc, fmt, strip, numbered, workdir, lost)
            if not strip:
                bump("keep.group_actions_with_several_groups", sum(1 for nd in f["nodes"] for a in nd.get("actions", []) if len(a.get("groups", [])) > 1))
                bump("keep.tail_group_uuid_not_carried(F-C04-g)", len(lost))
            if fail:
                bad.append({"doc": doc, "config": [fmt, strip, numbered], "fail": fail, "src": src})
                break
    return {"stats": stats, "bad": bad[:8], "keys": keys, "sample": sample, "ties": ties[:4]}


def shrink_doc(drv, doc, cfg, workdir):
    """drop nodes (redirecting edges into them to nowhere is not allowed inside the domain: only drop
    nodes that keep the flow expressible) while the failure persists"""
    def failing(d):
        if not expressible(d):
            return None
        return check_one(drv, d, cfg[0], cfg[1], cfg[2], workdir)

    cur = doc
    det = failing(cur)
    changed = True
    while changed and len(cur["flows"][0]["nodes"]) > 1:
        changed = False
        nodes = cur["flows"][0]["nodes"]
        for i in range(len(nodes) - 1, 0, -1):
            victim = nodes[i]["uuid"]
            cand = json.loads(json.dumps(cur))
            cn = cand["flows"][0]["nodes"]
            del cn[i]
            for nd in cn:
                for e in nd["exits"]:
                    if e.get("destination_uuid") == victim:
                        e["destination_uuid"] = None
            d = failing(cand)
            if d:
                cur, det, changed = cand, d, True
                break
    return cur, det


# ---- corpus: small hand-made flows (shapes that past failures needed), run first, all eight configurations


def corpus_docs():
    n = [0]

    def u():
        n[0] += 1
        return "00000000-0000-4000-8000-%012d" % n[0]

    def msg(text):
        return {"uuid": u(), "type": "send_msg", "text": text, "attachments": [], "quick_replies": []}

    def basic(uid, actions, dest):
        return {"uuid": uid, "actions": actions, "exits": [{"uuid": u(), "destination_uuid": dest}]}

    def wait(uid, tests, default_dest, filed_under_default=None):
        cats, exits, cases = [], [], []
        for k, (ty, arg, dest) in enumerate(tests):
            e = {"uuid": u(), "destination_uuid": dest}
            c = {"uuid": u(), "name": f"Cat {k}", "exit_uuid": e["uuid"]}
            cats.append(c); exits.append(e)
            cases.append({"uuid": u(), "type": ty, "arguments": [arg], "category_uuid": c["uuid"]})
        de = {"uuid": u(), "destination_uuid": default_dest}
        dc = {"uuid": u(), "name": "Other", "exit_uuid": de["uuid"]}
        cats.append(dc); exits.append(de)
        if filed_under_default:
            cases.append({"uuid": u(), "type": filed_under_default[0], "arguments": [filed_under_default[1]], "category_uuid": dc["uuid"]})
        return {"uuid": uid, "actions": [], "exits": exits,
                "router": {"type": "switch", "operand": "@input.text", "cases": cases, "categories": cats, "default_category_uuid": dc["uuid"],
                           "wait": {"type": "msg"}, "result_name": "answer"}}

    def doc(nodes, groups=()):
        flow = {"uuid": u(), "name": "corpus flow", "language": "eng", "type": "messaging", "spec_version": "13.1.0", "revision": 0,
                "expire_after_minutes": 10080, "localization": {}, "nodes": nodes, "_ui": {"nodes": {}}}
        return {"campaigns": [], "fields": [], "flows": [flow], "groups": [{"name": g, "uuid": gu} for g, gu in groups],
                "site": "https://rapidpro.idems.international", "triggers": [], "version": "13"}

    docs = []
    # (1) a diamond: a router branches into a node with several actions and into a single-action node with the same
    # readable name; both join into a common successor; plus a cycle back to the start (both branch orders)
    for order in (0, 1):
        r0, m, nn, j, s0 = u(), u(), u(), u(), u()
        multi = basic(m, [msg("Thank you for your feedback, one"), msg("second text")], j)
        single = basic(nn, [msg("Thank you for your feedback, two")], j)
        tests = [("has_any_word", "long", m), ("has_any_word", "short", nn)]
        if order:
            tests = [("has_any_word", "short", nn), ("has_any_word", "long", m)]
        docs.append((f"diamond with a multi-action node and an equally named node (order {order})", doc([
            basic(s0, [msg("start here")], r0),
            wait(r0, tests, j),
            multi if not order else single,
            single if not order else multi,
            basic(j, [msg("Thank you for your feedback, joined"), msg("and more")], None)])))
    # (2) a rule filed under the router's default category
    a, b, c = u(), u(), u()
    docs.append(("rule filed under the default category", doc([
        basic(a, [msg("hello")], b),
        wait(b, [("has_any_word", "yes", c)], c, filed_under_default=("has_phrase", "skip later")),
        basic(c, [msg("bye")], None)])))
    # (3) group names with the cell separators
    a, b = u(), u()
    g1, g2 = u(), u()
    docs.append(("group names with separators", doc([
        basic(a, [{"uuid": u(), "type": "add_contact_groups", "groups": [{"name": "Parents; Teachers", "uuid": g1}]}], b),
        basic(b, [{"uuid": u(), "type": "remove_contact_groups", "groups": [{"name": "Staff|Volunteers", "uuid": g2}]}], None)],
        groups=[("Parents; Teachers", g1), ("Staff|Volunteers", g2)])))
    # (4) several groups in one action: every group comes back; the uuids of the further groups are carried by other rows
    # (first position of another action), so everything is preserved without --strip_uuids too
    a, b, c = u(), u(), u()
    g1, g2, g3 = u(), u(), u()
    docs.append(("several groups in one action (uuids carried by other rows)", doc([
        basic(a, [{"uuid": u(), "type": "add_contact_groups", "groups": [{"name": "Parents; Teachers", "uuid": g1}, {"name": "Staff|Volunteers", "uuid": g2},
                                                                           {"name": "a\\b", "uuid": g3}, {"name": "Parents; Teachers", "uuid": g1}]}], b),
        basic(b, [{"uuid": u(), "type": "remove_contact_groups", "groups": [{"name": "Staff|Volunteers", "uuid": g2}, {"name": "Parents; Teachers", "uuid": g1}]},
                  msg("between"),
                  {"uuid": u(), "type": "remove_contact_groups", "groups": [{"name": "a\\b", "uuid": g3}]}], c),
        basic(c, [msg("bye")], None)],
        groups=[("Parents; Teachers", g1), ("Staff|Volunteers", g2), ("a\\b", g3)])))
    return docs


def corpus_stream(drv, ck, workdir):
    for name, d in corpus_docs():
        if not expressible(d):
            raise core.Infra(f"corpus flow {name!r} is outside expressible()")
        ck.case("corpus " + name, nontrivial=True)
        ck.count("corpus_flows")
        for fmt, strip, numbered in CONFIGS:
            fail = check_one(drv, d, fmt, strip, numbered, workdir)
            if fail:
                ck.violation(f"corpus flow ({name}): {fail['what']}", {"flow": d, "config": [fmt, strip, numbered], "detail": fail})
                break


# ---- known-finding streams (deterministic)


def _wait_flow(cases, dests_connected=True):
    g = FJ.FlowGen(random.Random(4), 1, special_text=False)
    doc = g.build()
    return doc


def known_streams(drv, ck, workdir):
    rng = random.Random(12345)
    # F-C04-a: a conditional category whose exit leads nowhere
    for _ in range(200):
        doc = FJ.gen_container(rng, 3, special_text=False)
        f = doc["flows"][0]
        hit = False
        for n in f["nodes"]:
            r = n.get("router")
            if r and r["type"] == "switch" and r.get("wait") and len(r["cases"]) >= 2:
                c = [c for c in r["categories"] if c["uuid"] == r["cases"][0]["category_uuid"]][0]
                for e in n["exits"]:
                    if e["uuid"] == c["exit_uuid"]:
                        e["destination_uuid"] = None
                        hit = True
                break
        if hit and FJ.reachable_all(f) and FJ.order_stable(f):
            fail = check_one(drv, doc, "csv", False, False, workdir)
            if fail and "behaves differently" in fail["what"]:
                ck.known("F-C04-a", "router categories whose exit leads nowhere are not exported: their tests vanish after the round trip", {"config": "csv keep named", "fail": fail})
            break
    # F-C04-b: test order changes when a case target is reached first through a later branch
    for _ in range(400):
        doc = FJ.gen_container(rng, rng.randint(3, 6), special_text=False)
        f = doc["flows"][0]
        if FJ.reachable_all(f) and not FJ.order_stable(f):
            d2 = json.loads(json.dumps(doc))
            if _expressible_except_order(d2):
                fail = check_one(drv, d2, "csv", False, False, workdir)
                if fail and "behaves differently" in fail["what"]:
                    ck.known("F-C04-b", "the order of a router's tests changes when a test's target is exported later than the target of a following test (joins)", {"fail": fail})
                    break
    # F-C04-d: webhook with headers
    doc = FJ.gen_container(random.Random(7), 1, special_text=False)
    f = doc["flows"][0]
    g = FJ.FlowGen(random.Random(8), 1)
    f["nodes"] = [{
        "uuid": g.uuid(), "actions": [{"uuid": g.uuid(), "type": "call_webhook", "result_name": "wh", "url": "http://example.com/h", "method": "GET", "body": "", "headers": {"Accept": "text/plain"}}],
        "exits": [{"uuid": "e1-" + g.uuid()[3:], "destination_uuid": None}, {"uuid": "e2-" + g.uuid()[3:], "destination_uuid": None}],
    }]
    n = f["nodes"][0]
    c1, c2 = g.uuid(), g.uuid()
    n["router"] = {"type": "switch", "operand": "@results.wh.category", "cases": [{"uuid": g.uuid(), "type": "has_only_text", "arguments": ["Success"], "category_uuid": c1}],
                   "categories": [{"uuid": c1, "name": "Success", "exit_uuid": n["exits"][0]["uuid"]}, {"uuid": c2, "name": "Failure", "exit_uuid": n["exits"][1]["uuid"]}],
                   "default_category_uuid": c2}
    fail = check_one(drv, doc, "csv", False, False, workdir)
    if fail and "cannot be compiled again" in fail["what"]:
        ck.known("F-C04-d", "a webhook with headers is exported as webhook.headers.i.j columns that the row parser cannot read back", {"fail": fail})
    # F-C04-f: webhook with a body
    doc_f = json.loads(json.dumps(doc))
    doc_f["flows"][0]["nodes"][0]["actions"][0]["headers"] = {}
    doc_f["flows"][0]["nodes"][0]["actions"][0]["body"] = "payload"
    doc_f["flows"][0]["nodes"].insert(0, {"uuid": g.uuid(), "actions": [{"uuid": g.uuid(), "type": "send_msg", "text": "hi", "attachments": [], "quick_replies": []}],
                                          "exits": [{"uuid": g.uuid(), "destination_uuid": doc_f["flows"][0]["nodes"][0]["uuid"]}]})
    fail = check_one(drv, doc_f, "csv", False, False, workdir)
    if fail and "behaves differently" in fail["what"]:
        ck.known("F-C04-f", "a webhook body is lost when the sheet also has a message_text column (blank message_text cell overwrites webhook.body)", {"fail": fail})
    # F-C04-e: group split with human category names
    for _ in range(100):
        doc = FJ.gen_container(rng, 2, special_text=False)
        f = doc["flows"][0]
        hit = False
        for nd in f["nodes"]:
            r = nd.get("router")
            if r and r["type"] == "switch" and r["operand"] == "@contact.groups":
                for k in r["cases"]:
                    for c in r["categories"]:
                        if c["uuid"] == k["category_uuid"]:
                            c["name"] = k["arguments"][1]
                            hit = True
        if hit and FJ.reachable_all(f) and FJ.order_stable(f):
            fail = check_one(drv, doc, "csv", False, False, workdir)
            if fail and "behaves differently" in fail["what"]:
                ck.known("F-C04-e", "category names of a group split are not exported: they come back as generated names (None_<Group>)", {"fail": fail})
            break


def known_groups_stream(drv, ck, workdir):
    """F-C04-g (narrowed) on real files: a flow whose only group action has two groups, both with uuids.  Attribution:
    trigger (several groups, the further one with a uuid no other row carries, uuids kept) AND pattern (with uuids kept the
    only difference is that uuid; with --strip_uuids nothing differs; both group NAMES are back in order in every configuration)."""
    docs = dict((name, d) for name, d in corpus_docs())
    d = json.loads(json.dumps(docs["group names with separators"]))
    f = d["flows"][0]
    second = {"name": "Grp B", "uuid": "22222222-2222-4222-a222-222222222222"}
    f["nodes"][0]["actions"][0]["groups"].append(second)
    d["groups"].append(dict(second))
    names = [g["name"] for g in f["nodes"][0]["actions"][0]["groups"]]
    seen = 0
    for fmt, strip, numbered in CONFIGS:
        lost = []
        fail = check_one(drv, d, fmt, strip, numbered, workdir, lost)
        ck.evaluations += 1
        if fail:
            old = "behaves differently" in fail["what"]
            if old:
                # the repaired defect (recorded as fixed): the second group is gone → reported as a violation by ck.known
                ck.known("F-C04-k", "an add/remove-groups action with several groups is compiled from the first group only: the other groups are gone",
                         {"flow": d, "config": [fmt, strip, numbered], "detail": fail})
            else:
                ck.violation("flow with a two-group action: " + fail["what"], {"flow": d, "config": [fmt, strip, numbered], "detail": fail})
            return
        if strip and lost:
            raise core.Infra("keep_checks ran in a strip configuration")
        if not strip:
            if [x["group"] for x in lost] == ["Grp B"] and lost[0]["uuid"] == second["uuid"]:
                seen += 1
            elif not lost:
                ck.notes.append(f"F-C04-g no longer reproduces on real files ({fmt} keep): the uuid of the second group is preserved")
    if seen:
        ck.known("F-C04-g", "without --strip_uuids the uuid of a group after the first of an add/remove-groups action is not preserved unless another row carries it "
                            "(obj_id holds the first group's uuid only); all group names, their order and the first uuid are preserved",
                 {"groups": names, "lost_uuid_of": "Grp B", "configurations": seen})


def known_cr_stream(drv, ck, workdir):
    """F-C07-b on this property's path: RowDataSheet.export(csv) removes the carriage returns inside cells, so a text
    holding CR / CRLF comes back without them.  Deterministic trigger; attribution: the recompiled text is EXACTLY the
    original without its CRs, and the same flow with the CRs taken out beforehand survives the round trip."""
    g = FJ.FlowGen(random.Random(9), 1)
    text = "line one\r\nline two\rend"

    def mk(t):
        doc = FJ.gen_container(random.Random(7), 1, special_text=False)
        doc["flows"][0]["nodes"] = [{"uuid": "11111111-2222-4333-8444-555555555555",
                                     "actions": [{"uuid": g.uuid(), "type": "send_msg", "text": t, "attachments": [], "quick_replies": []}],
                                     "exits": [{"uuid": g.uuid(), "destination_uuid": None}]}]
        return doc
    doc2, err = roundtrip(mk(text), "csv", False, False, workdir)
    fail_clean = check_one(drv, mk(text.replace("\r", "")), "csv", False, False, workdir)
    ck.evaluations += 2
    got = None
    if doc2 is not None:
        acts = [a for n in doc2["flows"][0]["nodes"] for a in n.get("actions", [])]
        got = acts[0].get("text") if len(acts) == 1 else None
    if got == text:
        ck.notes.append("F-C07-b no longer reproduces on the flow round trip (a text with CR / CRLF survives the CSV sheet)")
    elif got == text.replace("\r", "") and fail_clean is None:
        ck.known("F-C07-b", "a message text holding CR / CRLF comes back from the CSV sheet without its carriage returns (RowDataSheet.export "
                            "removes every CR of the written text); the same text without CRs survives", {"text": text, "recompiled_text": got})
    else:
        ck.violation("a flow whose message text holds CR / CRLF does not survive the CSV sheet, and not in the way finding F-C07-b describes",
                     {"text": text, "recompiled_text": got, "error": err, "same_flow_without_cr": fail_clean})


def _expressible_except_order(doc):
    saved = FJ.order_stable
    try:
        FJ.order_stable = lambda f: True
        return expressible(doc)
    finally:
        FJ.order_stable = saved


def run_action_codec(ck: core.Check, quick: bool):
    """the action codec (Rpft/ActionCodec.lean, theorem action_roundtrip): B = model vs REAL
    get_row_model_fields / _get_row_action / _get_row_node on generated actions of every kind and on
    generated row fields; C = every action inside `Expressible` comes back from its own row on the real
    code (row model, --strip_uuids row, real cell layer alone and in a shared sheet)."""
    from rpft.parsers.creation.flowparser import FlowParser

    if not (callable(getattr(FlowParser, "_get_row_action", None)) and callable(getattr(FlowParser, "_get_row_node", None))):
        # the codec streams read the compile side of ONE row through these two (private) methods; a tree that
        # does not have them cannot be observed at this level: the correspondence is broken (not a violation), the
        # whole-flow round trip below still evaluates the property itself on this tree
        ck.tie_break("action codec: FlowParser._get_row_action / _get_row_node (the harness' handle on the compile side of one row) do not exist in this tree",
                     {"note": "renamed or restructured? the whole-flow round-trip stream is unaffected"})
        return
    AC.known_streams(ck)
    AC.witness_stream(ck)
    n_act, n_rows = (260, 220) if quick else (1300, 1100)
    jobs = [(ck.rng.randrange(1 << 60), n_act, n_rows, False) for _ in range(par.NPROC)]
    res = par.pmap(AC.worker, jobs)
    ties = 0
    for r in res:
        for k, v in r["stats"].items():
            ck.count(k, int(v))
        for key in r["keys"]:
            ck.case("act:" + key, nontrivial=True)
        if r["sample"] and len(ck.samples) < 4:
            ck.samples.append(r["sample"])
        for t in r["ties"]:
            ck.tie_break(t.pop("what"), t)
        ties += r["n_ties"]
        for v in r["viol"]:
            ck.violation(v.pop("what"), v)
    if (ck.tie_breaks or not ck.lean.ok) and not ck.violations:
        # failing-input search: the direct oracle alone on a thorough-size stream (fresh seeds) and on
        # the actions the tie disagreed on (already judged above when they are expressible)
        ck.search_ran = True
        jobs = [(ck.rng.randrange(1 << 60), 1300, 0, True) for _ in range(par.NPROC)]
        for r in par.pmap(AC.worker, jobs):
            ck.count("search.actions", len(r["keys"]))
            for v in r["viol"]:
                ck.violation(v.pop("what"), v)
    kinds = ["send_msg", "set_contact_field", "set_contact_prop", "add_contact_groups", "remove_contact_groups", "set_run_result",
             "enter_flow", "call_webhook", "transfer_airtime", "add_contact_urn"]
    for k in kinds:
        if ck.strata.get(f"act.{k}.expressible", 0) < 20 or ck.strata.get(f"act.{k}.outside", 0) < 5:
            raise core.Infra(f"action generator stratum {k} under-represented: {ck.strata.get(f'act.{k}.expressible', 0)} / {ck.strata.get(f'act.{k}.outside', 0)}")
    for need in ("oracle.cells.single_row.ok", "oracle.cells.shared_sheet.ok", "oracle.strip.ok"):
        if not ck.violations and ck.strata.get(need, 0) < 50:
            raise core.Infra(f"oracle stratum {need} under-represented: {ck.strata.get(need, 0)}")


def run(ck: core.Check):
    ck.lean = core.lean_step("C04", thorough=(ck.tier == "thorough"))
    if not core.DRIVER_BIN.exists():
        raise core.Infra("driver not built:\n" + ck.lean.log[-2000:])
    quick = ck.tier == "quick"
    ck.rule = (
        "(a) actions of every kind from a seeded structured generator (62 % inside `Expressible`, 33 % with exactly one clause broken, 5 % pass-through types; "
        "texts with | ; \\ , quotes, newlines, padding, non-ASCII; values at the 640 / 36 limits) and row fields as a sheet author writes them (every row type, "
        "malformed pair lists / amounts / methods): model vs real export and compile code; every expressible action must come back from its own row "
        "(row model, --strip_uuids row, real cell layer alone and in a shared sheet); a case = one action, distinct = distinct canonical JSON.  (b) "
        "flow definitions from two seeded streams — foreign-style exports built in the export schema (all node/router/action kinds the "
        "sheet vocabulary covers; trees, joins, cycles, self loops; texts with | ; \\ , quotes, newlines, non-ASCII) and outputs of the real "
        "compiler on random core sheets — filtered to `Expressible`; each written by the real flows_to_sheets to csv/xlsx × strip × numbered "
        "(2 of 8 configurations per flow in quick, all 8 in thorough) and recompiled; a case = one expressible flow; distinct = distinct JSON"
    )
    ck.assumptions = ["tablib / csv / openpyxl byte formats (library code) are exercised, not modelled",
                      "float(repr(x)) == x in CPython: a float airtime amount is carried by the model as its repr text",
                      "the action codec model lower-cases ASCII only (generate_field_key) and reads ASCII digits only (int()): generated names / amounts stay inside"]
    ck.partial_gap = ["C04_full (all expressible flows) not proved on a Lean exporter/compiler model; decided per explored flow by the verified checker",
                      "action_roundtrip is per action at the row-model level (FlowRowModel fields); the cell layer (row model ↔ cells, C07) and the compiler model (C01) are not composed with it in Lean",
                      "exporter half at the graph level is proved (Props/C04_Graph.lean: the graph READ from the exported sheet the way the compiler resolves it is the flow's reachable graph, nodes / payload rows / labels / destinations / joins / cycles, with the exact order relation); NOT proved: that the sheet COMPILER model (Rpft/Compile.lean) builds from that reading a flow bisimilar to the original (the composition exporter ∘ cells ∘ compiler; the reading functions edgesOfS / groupRows restate flowparser.py's edge resolution and node merging and are tied to the real exporter output, not derived from Rpft/Compile.lean), row payload ↔ action / router content beyond action_roundtrip; for a node with go_to edges the order criterion is sufficient (not prepended), not exact",
                      "result names of non-wait routers and UI data are not compared (not in the statement's list)"]
    workdir = tempfile.mkdtemp(prefix="c04_")
    try:
        drv = core.Driver()
        corpus_stream(drv, ck, workdir)
        known_streams(drv, ck, workdir)
        known_groups_stream(drv, ck, workdir)
        known_cr_stream(drv, ck, workdir)
        run_action_codec(ck, quick)
        n_total = 1920 if quick else 9600
        maxnodes = 14 if quick else 22
        nshards = par.NPROC * (1 if quick else 2)
        jobs = [(ck.rng.randrange(1 << 60), n_total // nshards, maxnodes, not quick, workdir) for _ in range(nshards)]
        for r in par.pmap(worker, jobs):
            for k, v in r["stats"].items():
                ck.count(k, int(v))
            for key in r["keys"]:
                ck.case(key, nontrivial=True)
            if r["sample"] and len(ck.samples) < 2:
                ck.samples.append(r["sample"])
            for t in r.get("ties", []):      # Lean reading of the real rows vs the real flow's edge list (the flow went through all 8 configurations)
                ck.tie_break(t.pop("what"), t)
                ck.search_ran = True
            for b in r["bad"]:
                if len(ck.violations) >= 2:
                    ck.violation(b["fail"]["what"] + " (not shrunk)", {"document": b["doc"], "config": {"format": b["config"][0], "strip_uuids": b["config"][1], "numbered": b["config"][2]}, "detail": b["fail"], "pad": "#" * 4000})
                    continue
                doc, det = shrink_doc(drv, b["doc"], b["config"], workdir)
                det = det or b["fail"]
                ck.violation(det["what"], {"document": doc, "config": {"format": b["config"][0], "strip_uuids": b["config"][1], "numbered": b["config"][2]},
                                           "detail": det, "source": b["src"]})
        for need in ("expressible.foreign", "expressible.compiled", "flows_with_join", "flows_with_router", "flows_with_multi_group_action"):
            if ck.strata.get(need, 0) < 5:
                raise core.Infra(f"generator stratum {need} under-represented: {ck.strata.get(need, 0)}")
    finally:
        shutil.rmtree(workdir, ignore_errors=True)


def replay(path):
    rec = json.load(open(path))
    print(json.dumps(rec, indent=1, ensure_ascii=False)[:6000])
    rp = rec.get("replay", {})
    if rp.get("action") is None and isinstance(rp.get("example"), dict) and rp["example"].get("action") is not None:
        rp = rp["example"]          # a finding recorded as fixed that shows again (ck.known → violation)
    if rp.get("action") is not None:
        (res, val), fields, row = AC.real_roundtrip(rp["action"])
        print("original (canonical):", AC.dumps(AC.canon_action(rp["action"])))
        print("row fields:", AC.dumps(fields) if fields is not None else None)
        print("comes back as:", res, AC.dumps(val) if res == "ok" else val)
        if row is not None and rp.get("headers"):
            back, headers = AC.through_cells([row], bool(rp.get("strip_uuids")))
            print("through the exported sheet row:", headers, AC.real_of_fields(back[0]) if not isinstance(back[0], str) else back[0])
        return 0
    if rp.get("document"):
        wd = tempfile.mkdtemp(prefix="c04r_")
        try:
            c = rp["config"]
            print(check_one(core.Driver(), rp["document"], c["format"], c["strip_uuids"], c["numbered"], wd))
        finally:
            shutil.rmtree(wd, ignore_errors=True)
    return 0
