"""C08 — cell syntax is an unambiguous, escapable encoding of nested lists.

A  proof step: Rpft.Props.C08 (split_join, split_join_atom, no_sep_is_atom, list_has_sep,
   escape_inert, …) re-checked by the kernel against tables regenerated from /repo.
B  tie: exhaustive differential run of the Lean model vs the real CellParser.
C  direct oracle: the statement itself evaluated on the real code for the same cases.
"""
from __future__ import annotations

import itertools
import json
import random

from .. import core, par

MANIFEST = dict(
    text="Proof: Lean theorems split_join / split_join_atom / no_sep_is_atom / list_has_sep / escape_inert / escape_single_pass over a hand model of CellParser for all strings and all two-level lists (unbounded); tied to the code by an exhaustive differential run (all strings up to 6 (quick) / 8 (thorough) symbols over a 7-letter alphabet, all small nested lists, random long unicode strings) and by T1 constants regenerated from the source.",
    ref="§5 C08",
    note="Trusts: Lean kernel (axioms ⊆ propext/Quot.sound/Classical.choice, audited each run), the differential harness and Driver JSON codec, CPython str.strip/replace and re.sub over a 2-character pattern as modelled, Jinja2 for the escape-filter oracle. Holds for every string since fix F-C08-a (single-pass unescape).",
    technique="Lean 4 proof (induction on strings; transparent-piece lemma) + exhaustive model/code correspondence",
)

ALPHA = ["a", "|", ";", "\\", " ", "\n", "\x01"]
TMP = "\x01"


def _cp():
    from rpft.parsers.common.cellparser import CellParser

    return CellParser


def has_unescaped_sep(s: str) -> bool:
    """Independent reading of 'unescaped separator' (not the code's scan)."""
    i = 0
    while i < len(s):
        if s[i] == "\\":
            i += 2
        elif s[i] in "|;":
            return True
        else:
            i += 1
    return False


def wf(v) -> bool:
    """WFCell of Props/C08.lean, mirrored (lists non-empty, no list of length ≥ 2 ends in '')."""
    if isinstance(v, str):
        return True
    if not v:
        return False
    for e in v:
        if not isinstance(e, str):
            if not e:
                return False
            if len(e) >= 2 and e[-1] == "":
                return False
    if len(v) >= 2 and v[-1] == "":
        return False
    return True


def wf_modulo_tmp(v) -> bool:
    def sub(x):
        return x.replace(TMP, "t") if isinstance(x, str) else [sub(y) for y in x]

    return wf(sub(v))


def normalize(v):
    return v.strip() if isinstance(v, str) else [normalize(x) for x in v]


def tmp_to_backslash(v):
    return v.replace(TMP, "\\") if isinstance(v, str) else [tmp_to_backslash(x) for x in v]


def contains_tmp(v):
    return TMP in v if isinstance(v, str) else any(contains_tmp(x) for x in v)


# ------------------------------------------------------------------ workers


def string_worker(strings):
    CP = _cp()
    cp = CP()
    drv = core.Driver()
    model = drv.results([{"op": "cell.all", "s": s} for s in strings])
    ties, viol, known = [], [], []
    n_sep = n_list = 0
    for s, m in zip(strings, model):
        real = {
            "esc": CP.escape_string(s),
            "cleanse": cp.cleanse(s),
            "sp0": cp.split_by_separator(s, "|"),
            "sp1": cp.split_by_separator(s, ";"),
            "split": cp.split_into_lists(s),
        }
        if real != m:
            if len(ties) < 20:
                ties.append({"input": s, "real": real, "model": m})
            else:
                ties.append(None)
        # C: direct oracle on the real code
        sep = has_unescaped_sep(s)
        n_sep += sep
        is_list = not isinstance(real["split"], str)
        n_list += is_list
        if not sep and is_list:
            viol.append({"what": "cell without unescaped separator parsed as a list", "input": s, "got": real["split"]})
        if sep and not is_list:
            viol.append({"what": "cell with an unescaped separator parsed as a plain string", "input": s, "got": real["split"]})
        back = cp.split_into_lists(cp.join_from_lists(s))
        if back != s.strip():
            if TMP in s and back == s.strip().replace(TMP, "\\"):
                known.append(s)
            else:
                viol.append({"what": "string does not survive join_from_lists → split_into_lists", "input": s, "got": back, "expected": s.strip()})
    return {"n": len(strings), "ties": ties, "viol": viol[:20], "nviol": len(viol), "known": known[:3], "nknown": len(known), "n_sep": n_sep, "n_list": n_list}


def nested_worker(values):
    CP = _cp()
    cp = CP()
    drv = core.Driver()
    model = drv.results([{"op": "cell.joinrt", "v": v} for v in values])
    ties, viol, known = [], [], []
    n_wf = 0
    cp2 = CP()     # one parser for many cells, as RowParser holds one per sheet
    n_hist = 0
    for k, (v, m) in enumerate(zip(values, model)):
        j = cp.join_from_lists(v)
        back = cp.split_into_lists(j)
        # the entry point the row parser uses: a template-free cell means the same whatever the parser has
        # parsed before (a native-object template, a text template, nothing)
        if "{" not in j:
            if k % 3 == 0:
                cp2.parse("{@ [1, 2] @}")
            elif k % 3 == 1:
                cp2.parse("x{{ 1 + 1 }};y")
            n_hist += 1
            for ctx in (None, {}):
                got = cp2.parse(j, context=ctx)
                fresh = CP().parse(j, context=ctx)
                if got != fresh and len(viol) < 40:
                    viol.append({"what": "a template-free cell parsed by a parser that has parsed other cells before differs from the same cell parsed by a fresh parser",
                                 "parsed_before": ["{@ [1, 2] @}", "x{{ 1 + 1 }};y", None][k % 3], "cell": j, "context": ctx, "got": got, "fresh_parser": fresh})
                if fresh != cp.split_into_lists(j.strip()) and len(viol) < 40:
                    viol.append({"what": "parse of a template-free cell is not split_into_lists of the trimmed cell", "cell": j, "context": ctx, "got": fresh,
                                 "expected": cp.split_into_lists(j.strip())})
        if {"joined": j, "back": back} != m:
            if len(ties) < 20:
                ties.append({"input": v, "real": {"joined": j, "back": back}, "model": m})
            else:
                ties.append(None)
        if wf(v):
            n_wf += 1
            if back != normalize(v):
                viol.append({"what": "well-formed nested list does not survive join → split", "input": v, "joined": j, "got": back, "expected": normalize(v)})
        elif contains_tmp(v) and wf_modulo_tmp(v):
            if back == normalize(v):
                pass
            elif back == tmp_to_backslash(normalize(v)):
                known.append(v)
            else:
                viol.append({"what": "nested list with U+0001 altered beyond the known finding", "input": v, "got": back})
    return {"n": len(values), "ties": ties, "viol": viol[:20], "nviol": len(viol), "known": known[:3], "nknown": len(known), "n_wf": n_wf, "n_hist": n_hist}


HOLE = ""
TEMPLATES = [
    "{{d|escape}}", "x;{{d|escape}};y", "x|{{d|escape}};y|z", " {{d|escape}} |q", "{{d|escape}};",
    "a\\\\{{d|escape}}|b", "p{{d|escape}}q;r", "{{d|escape}}{{d|escape}}|", "u;{{d|escape}}",
]


def subst_hole(v, d):
    return v.replace(HOLE, d).strip() if isinstance(v, str) else [subst_hole(x, d) for x in v]


def template_worker(datas):
    CP = _cp()
    cp = CP()
    viol = []
    n = 0
    for d in datas:
        for t in TEMPLATES:
            n += 1
            got = cp.parse(t, context={"d": d})
            # empty data leaves nothing to protect: the trailing-separator rule of the format
            # applies to the template text itself, so the placeholder is empty as well
            shape = cp.split_into_lists(t.replace("{{d|escape}}", HOLE if d else ""))
            exp = subst_hole(shape, d)
            if TMP in d:
                if got not in (exp, tmp_to_backslash_hole(shape, d)):
                    viol.append({"what": "escaped data changed the list structure (U+0001 data)", "template": t, "data": d, "got": got, "expected": exp})
            elif got != exp:
                viol.append({"what": "data substituted through the escape filter is not inert", "template": t, "data": d, "got": got, "expected": exp})
        # templates are expanded before splitting: unescaped data does split
        got = cp.parse("{{d}}", context={"d": d})
        exp = cp.split_into_lists(d)
        n += 1
        if got != exp:
            viol.append({"what": "template not expanded before splitting", "data": d, "got": got, "expected": exp})
    return {"n": n, "viol": viol[:20], "nviol": len(viol)}


def tmp_to_backslash_hole(shape, d):
    return tmp_to_backslash(subst_hole(shape, d))


# ------------------------------------------------------------------ generators


def all_strings(maxlen):
    for n in range(maxlen + 1):
        for t in itertools.product(ALPHA, repeat=n):
            yield "".join(t)


def nested_values(strs, max_inner, max_outer):
    elems = list(strs)
    for n in range(0, max_inner + 1):
        for t in itertools.product(strs, repeat=n):
            elems.append(list(t))
    for n in range(0, max_outer + 1):
        for t in itertools.product(range(len(elems)), repeat=n):
            yield [elems[i] for i in t]


def random_strings(rng: random.Random, n, ws_codes):
    pool = ALPHA[:-1] * 3 + ["b", "é", "日", "\U0001F600", "\t", "\r", "{", "}", ",", '"'] + [chr(c) for c in ws_codes]
    out = []
    for _ in range(n):
        k = rng.randint(0, 200 if rng.random() < 0.2 else 24)
        s = "".join(rng.choice(pool) for _ in range(k))
        if rng.random() < 0.05:
            s += TMP
        out.append(s)
    return out


def random_nested(rng: random.Random, n, ws_codes):
    strs = random_strings(rng, 400, ws_codes)
    out = []
    for _ in range(n):
        def rs():
            return rng.choice(strs) if rng.random() < 0.7 else rng.choice(["", "a", "|", ";", "\\", " "])
        k = rng.randint(1, 5)
        v = []
        for _ in range(k):
            if rng.random() < 0.5:
                v.append(rs())
            else:
                v.append([rs() for _ in range(rng.randint(1, 4))])
        out.append(v)
    return out


# ------------------------------------------------------------------ run


def run(ck: core.Check):
    ck.lean = core.lean_step("C08", thorough=(ck.tier == "thorough"))
    ck.rule = (
        "strings: ALL strings up to the length bound over {a,|,;,\\,space,newline,U+0001} plus random long "
        "strings over all Python whitespace, astral and template characters; nested: ALL two-level lists "
        "over a 6-string set up to the shape bound plus random ones; a case is non-trivial when the string "
        "contains a separator/escape/whitespace (or the value is a list); distinct = distinct inputs"
    )
    ck.assumptions = [
        "CPython str.strip/str.replace/slicing behave as modelled in Rpft/Str.lean (exercised by the tie on every case)",
        "Jinja2 renders {{d|escape}} by calling the registered filter (template oracle runs the real environment)",
    ]
    if not core.DRIVER_BIN.exists():
        raise core.Infra("driver not built:\n" + ck.lean.log[-2000:])
    import rpft.parsers.common.cellparser  # noqa: F401  (fail early → infra)

    quick = ck.tier == "quick"
    maxlen = 6 if quick else 8
    ws_codes = [c for c in range(0x110000) if not (0xD800 <= c < 0xE000) and chr(c).isspace()]
    ck.extra["python_isspace_code_points"] = len(ws_codes)

    def fold(results, kind):
        for r in results:
            ck.count(kind, r["n"])
            for t in r.get("ties", []):
                if t is None:
                    ck.count("tie_break")
                else:
                    ck.tie_break(f"{kind}: model and real CellParser differ", t)
            for v in r["viol"]:
                ck.violation(v["what"], v)
            if r.get("nknown"):
                ck.known("F-C08-a", "U+0001 (temporary character of cleanse) in a cell comes back as a backslash", r["known"][0])
                ck.count("known_F-C08-a_cases", r["nknown"])
            for k in ("n_sep", "n_list", "n_wf", "n_hist"):
                if k in r:
                    ck.count(f"{kind}.{k}", r[k])

    # corpus first (minimised past disagreements / boundary cases)
    corpus = ["", "|", ";", "\\", "a;", "a|", "a\\", "\\\\", "\\|", "\\;", "a\\;b", "a; ", " ;", ";;", "a;|", "|;", "\\\\;", " \\", "\\ ", "a\\\\|b", "\x01", "\\\x01"]
    fold([string_worker(corpus)], "corpus")

    strings = list(all_strings(maxlen))
    for s in strings:
        pass
    ck.evaluations += len(strings)
    ck.nontrivial.update(s for s in strings if any(c in s for c in "|;\\ \n"))
    ck.samples += [strings[len(strings) // 3], strings[-1], strings[len(strings) // 2]]
    fold(par.pmap(string_worker, core.shard(strings, par.NPROC * 2)), "exhaustive_strings")
    ck.extra["exhaustive"] = True
    ck.extra["exhaustive_bound"] = f"all strings of length ≤ {maxlen} over 7 symbols ({len(strings)})"
    del strings

    rs = random_strings(ck.rng, 4000 if quick else 60000, ws_codes)
    ck.evaluations += len(rs)
    ck.nontrivial.update(rs)
    ck.samples.append(rs[0])
    fold(par.pmap(string_worker, core.shard(rs, par.NPROC)), "random_strings")

    base = ["", "a", "|", ";", "\\", " b"]
    nv = list(nested_values(base, 2, 2 if quick else 3))
    nv += [[[TMP]], [TMP, "a"], [["a", TMP]]]
    ck.evaluations += len(nv)
    ck.nontrivial.update(json.dumps(v) for v in nv)
    ck.samples.append(nv[len(nv) // 2])
    fold(par.pmap(nested_worker, core.shard(nv, par.NPROC * 2)), "exhaustive_nested")

    rn = random_nested(ck.rng, 3000 if quick else 40000, ws_codes)
    ck.evaluations += len(rn)
    ck.nontrivial.update(json.dumps(v) for v in rn)
    ck.samples.append(rn[0])
    fold(par.pmap(nested_worker, core.shard(rn, par.NPROC)), "random_nested")

    datas = list(all_strings(3 if quick else 4)) + random_strings(ck.rng, 300 if quick else 3000, ws_codes)
    datas = [d for d in datas if "{" not in d and "}" not in d]
    res = par.pmap(template_worker, core.shard(datas, par.NPROC))
    for r in res:
        ck.count("template_cases", r["n"])
        ck.evaluations += r["n"]
        for v in r["viol"]:
            ck.violation(v["what"], v)

    # depth limit: error branch on both sides
    CP = _cp()
    cp = CP()
    drv = core.Driver()
    deep = [[[["a"]]], [["a", ["b"]]], ["x", [["y"]]]]
    mres = drv.results([{"op": "cell.joinnested", "v": v} for v in deep])
    for v, m in zip(deep, mres):
        ck.evaluations += 1
        try:
            cp.join_from_lists(v)
            real_err = False
        except Exception:
            real_err = True
        if real_err != ("err" in m):
            ck.tie_break("join_from_lists depth limit differs", {"input": v, "real_error": real_err, "model": m})
        if not real_err:
            ck.violation("three-level list joined without an error", {"input": v})

    # whitespace table: Lean's copy vs the running interpreter
    r = drv.results([{"op": "str.strip", "s": chr(c) + "x" + chr(c)} for c in ws_codes])
    if any(x != "x" for x in r):
        ck.tie_break("Python whitespace table differs from Rpft.pyWhitespaceCodes", {"codes": [c for c, x in zip(ws_codes, r) if x != "x"]})
    ck.count("whitespace_code_points_checked", len(ws_codes))

    if (ck.tie_breaks or not ck.lean.ok) and not ck.violations and quick:
        # obligation broken: failing-input search = the thorough oracle, time-boxed by its fixed size
        ck.search_ran = True
        extra = list(all_strings(7))
        fold(par.pmap(string_worker, core.shard(extra, par.NPROC * 2)), "search_strings")
        nv = list(nested_values(base, 2, 3))
        fold(par.pmap(nested_worker, core.shard(nv, par.NPROC * 2)), "search_nested")


def replay(path):
    rec = json.load(open(path))
    print(json.dumps(rec, indent=1, ensure_ascii=False)[:4000])
    rp = rec.get("replay", {})
    if "input" in rp:
        CP = _cp()
        cp = CP()
        v = rp["input"]
        j = cp.join_from_lists(v)
        print("join_from_lists ->", repr(j))
        print("split_into_lists ->", repr(cp.split_into_lists(j)))
        if isinstance(v, str):
            print("split_into_lists(input) ->", repr(cp.split_into_lists(v)))
    return 0
