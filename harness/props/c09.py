"""C09 — the same data in different column layouts parses to the same row.

A  proof step: Rpft.Props.C09 re-checked by the kernel.
B  tie: Lean parseRow vs the real RowParser.parse_row (real CellParser) on every layout of every
   generated value (dict[str,str] in → row value out).
C  oracle: for each value, ALL its equivalent layouts — spread / packed per field, `|` or `;` list
   cells, positional / keyword / mixed records, `*` columns with and without broadcast, the flow
   sheet's short headers vs long forms, permutations of columns of different fields — are parsed
   by the real parse_row; the results must be pairwise equal.
"""
from __future__ import annotations

import importlib
import json
import sys

from .. import core, par
from .. import rowgen as G
from .. import rowlib as R
from . import c07

MANIFEST = dict(
    text="Proof: Lean theorems over the hand model of RowParser.parse_row, all for unbounded inputs: layout_independent (for EVERY row model of C07's general family — any nesting of basic types, untyped lists, List[T], sub-records with consistent remap tables, remapped headers — any two layouts that are LayoutOk for the value give rows that parse equally; layout_independent_flow for the real FlowRowModel; corollaries of C07.parse_unparse), short_row_eq_indexed_row (ONE whole-row statement: a flow row with short headers — from, condition, condition_var, …, message_text, _nodeId — and * columns, any mixture with long/plain headers, any cell texts, any number of edges, parses exactly like its fully indexed form edges.k.from_, edges.k.condition.value, mainarg_…; composes short_eq_long, message_text_eq_main_arg, asterisk_expand, asterisk_broadcast and star_element_eq_indexed_cell through the fold of parse_row; tables re-extracted each run), column_perm (any reordering that keeps the order of the columns of each top-level field — every schema, via the frame lemma of find_entry), asterisk_expand / asterisk_broadcast (every schema, every row), positional_eq_keyword (general: the inductive relation Enc ty v pv — pv is AN encoding of v: lists element by element or as a single value, records by entries that are each positional or key;value in any mixture and order, entries being encodings in turn, to any depth: sub-records and lists given positionally inside records, lists of records — any two encodings of a value decode equally, to the value; by rule induction; cell-level corollary positional_eq_keyword_cells; special cases mixed_eq_keyword and positional_eq_keyword_partial on the cell texts written by join_from_lists), under the side condition that no positional entry and not the whole value looks like a key;value pair, with the kernel-checked counterexamples positional_needs_Unambiguous / mixed_needs_UnambiguousM / positional_entry_needs_unambiguous (finding F-C09-a). Model tied to the code on every generated layout; direct oracle: ALL equivalent layouts of a value (spread/packed per field, | or ; list cells, positional/keyword/mixed records, * columns with broadcast, short/long flow headers, column permutations) parse to pairwise equal rows on the real code, incl. the inputs of tests/test_differentways.py and tests/test_full_rows.py.",
    ref="§5 C09",
    note="Trusts: Lean kernel (axioms audited each run), the differential harness and Driver JSON codec, pydantic v1, CPython primitives as modelled. The documented keyword/positional ambiguity (F-C09-a) is a hypothesis (Unambiguous); the main stream avoids it, a deterministic stream shows it. The whole-row theorem short_row_eq_indexed_row covers rows whose * columns are the string leaves of an edge (what the short headers stand for) holding flat lists, and whose indexed columns are pairwise different (a Python dict); both restrictions have kernel-checked witnesses (short_row_needs_string_leaves, short_row_needs_flat_star_cells).",
    technique="Lean 4 proof (frame lemma + lookup-equivalence for column order; fold algebra for * columns; T1-tied remap tables) + model/code correspondence + per-value layout enumeration through the real parser",
)

import collections

FEAT = collections.Counter()   # layout features produced by the encoders (per worker, merged into the strata)
SCH = c07._SCHEMAS
FLOW = c07._FLOW


def _cp():
    from rpft.parsers.common.cellparser import CellParser

    return CellParser()


def depth(n):
    return 0 if isinstance(n, str) else 1 + max([depth(x) for x in n] or [0])


def wf_nested(n):
    """lists non-empty, no list of length ≥ 2 ends in a blank string (Props.C08 WFCell)"""
    if isinstance(n, str):
        return True
    if not n:
        return False
    if len(n) >= 2 and n[-1] == "":
        return False
    return all(wf_nested(x) for x in n)


def basic_text(v):
    return v if isinstance(v, str) else str(v)


class Ambiguous(Exception):
    pass


def looks_kwarg(t, e):
    """try_assign_as_kwarg's test, on an encoded entry"""
    return isinstance(e, list) and len(e) == 2 and isinstance(e[0], str) and t[3].get(e[0], e[0]) in [n for n, _, _ in t[2]]


def nested(t, v, rng, style=None, allow_ambiguous=False):
    """one of the equivalent nested-list encodings of value v of type t"""
    k = R.kind(t)
    if k in R.BASIC:
        return basic_text(repr(v) if k == "float" else v)
    if k == "any":
        return json.loads(json.dumps(v))
    if k == "list":
        return [nested(t[1], x, rng, style, allow_ambiguous) for x in v]
    fields = t[2]
    nd = [i for i, (n, ft, d) in enumerate(fields) if d is R.REQ or v[n] != d]
    st = style or rng.choice(["kw", "pos", "mixed"])
    if not nd:
        return []
    m = nd[-1] + 1
    j = 0 if st == "kw" else (m if st == "pos" else rng.randint(0, m))
    FEAT["record." + ("keyword" if j == 0 else "positional" if j == m else "mixed")] += 1
    entries = []
    for i in range(j):
        n, ft, d = fields[i]
        e = nested(ft, v[n], rng, style, allow_ambiguous)
        if looks_kwarg(t, e) and not allow_ambiguous:
            raise Ambiguous()
        entries.append(e)
    for i in nd:
        if i >= j:
            n, ft, d = fields[i]
            hn = rng.choice([n] + [h for h, f in t[3].items() if f == n])
            entries.append([hn, nested(ft, v[n], rng, style, allow_ambiguous)])
    if j >= 2 or (j == len(entries) and len(entries) == 2):
        pass
    if len(entries) == 2 and j >= 1 and looks_kwarg(t, entries) and not allow_ambiguous:
        raise Ambiguous()  # two entries, the first one positional and equal to a field name
    return entries


PAD = {"rng": None}     # set while a layout whose items are padded with whitespace is being written


def pad_text(s, where="spread-cell"):
    """cell / item text `s` with whitespace of any kind (every c with c.isspace(): ASCII, NBSP, U+2003, U+3000, U+0085, …)
    put around it when a padded layout is being written: every cell and every item of a packed cell is trimmed on
    reading, so the padded text is the same data.  (Zero-width space / BOM are not whitespace: never padding.)"""
    rng = PAD["rng"]
    if rng is None or rng.random() < 0.55:
        return s

    def ws():
        k = rng.choice([1, 1, 2])
        return "".join(rng.choice(G.WS_UNICODE) if rng.random() < 0.7 else rng.choice(G.WS_ASCII) for _ in range(k))

    side = rng.choice(["left", "right", "both"])
    left = ws() if side != "right" else ""
    right = ws() if side != "left" else ""
    kinds = {("unicode-space" if ord(c) >= 128 else "ascii-space") for c in left + right}
    for kd in kinds:
        FEAT[f"pad.{kd}.{where}"] += 1
    return left + s + right


def pad_leaves(n):
    if isinstance(n, str):
        return pad_text(n, "packed-item")
    return [pad_leaves(x) for x in n]


def join(n):
    """cell text of a nested list, written by the real join_from_lists (which escapes `\\ | ;` and nothing else:
    padding put around the leaves beforehand ends up next to the separators)"""
    if PAD["rng"] is not None:
        n = pad_leaves(n)
    return _cp().join_from_lists(n)


def star_group(specs, n, rng):
    """Plan the `*` columns of one list of n records.
    specs: [(key, encoded value per element, element-is-default flags, text of a blank-able default or None)].
    Each column becomes a single cell (all elements agree: broadcast), the full list, or the list WITHOUT its
    trailing default-valued elements (so the list cells of one prefix have unequal lengths); the column order
    is shuffled (any order of the `*` columns of one list is the same data).  Returns {key: cell} or None."""
    plan = []
    for key, ns, dflt, blank_default in specs:
        if all(dflt):
            if blank_default == "" and rng.random() < 0.3:
                plan.append([key, "blank", 0, "", ns])
            continue
        same = len(set(json.dumps(x) for x in ns)) == 1 and isinstance(ns[0], str) and not dflt[0]
        if same and rng.random() < 0.6:
            plan.append([key, "scalar", 1, join(ns[0]), ns])
            continue
        k = max(i for i, d in enumerate(dflt) if not d) + 1
        lst = ns[:k] if (k < n and rng.random() < 0.7) else ns
        if depth(lst) > 2 or not wf_nested(lst):
            lst = ns
            if depth(lst) > 2 or not wf_nested(lst):
                return None
        plan.append([key, "list", len(lst), join(lst), ns])
    if not any(p[1] != "blank" for p in plan):
        return None
    if n > 1 and not any(p[1] == "list" and p[2] == n for p in plan):
        # the number of elements is the longest list: one column must spell all of them
        cand = [p for p in plan if p[1] != "blank" and depth(p[4]) <= 2 and wf_nested(p[4])]
        if not cand:
            return None
        p = rng.choice(cand)
        p[1], p[2], p[3] = "list", n, join(p[4])
    rng.shuffle(plan)
    lens = [p[2] for p in plan if p[1] == "list"]
    scal = [p for p in plan if p[1] == "scalar"]
    for p in plan:
        FEAT["star." + ("broadcast" if p[1] == "scalar" and n > 1 else p[1])] += 1
    if len(set(lens)) > 1:
        FEAT["star.unequal-lists"] += 1
        pos = lens.index(max(lens))
        FEAT["star.unequal-lists.longest-" + ("first" if pos == 0 else "last" if pos == len(lens) - 1 else "middle")] += 1
        if scal:
            FEAT["star.unequal+broadcast"] += 1
            if lens[-1] < max(lens):
                FEAT["star.unequal+broadcast.last-list-shorter"] += 1
    return {p[0]: p[3] for p in plan}


def encode(t, v, rng, prefix="", out=None, top=True, sj=None):
    """write value v at header `prefix` choosing a layout at random; returns {header: cell}"""
    out = {} if out is None else out
    k = R.kind(t)
    if k in R.BASIC:
        out[prefix] = pad_text(basic_text(repr(v) if k == "float" else v))
        return out
    if k == "model":
        can_pack = not top
        if can_pack and rng.random() < 0.5:
            try:
                n = nested(t, v, rng)
                if depth(n) <= 2 and wf_nested(n):
                    if len(n) == 1 and isinstance(n[0], str) and n[0] != "" and rng.random() < 0.5:
                        FEAT["record.single-scalar"] += 1
                        out[prefix] = join(n[0])    # a record given by a single positional value
                    else:
                        out[prefix] = join(n)
                    return out
            except Ambiguous:
                pass
        for n, ft, d in t[2]:
            if d is not R.REQ and v[n] == d:
                continue
            hs = [n] + [h for h, f in t[3].items() if f == n]
            h = rng.choice(hs)
            encode(ft, v[n], rng, f"{prefix}.{h}" if prefix else h, out, False, sj)
        return out
    if k == "any":
        if all(isinstance(x, str) for x in v) and rng.random() < 0.5:
            for i, x in enumerate(v):
                out[f"{prefix}.{i+1}"] = pad_text(x)
        else:
            out[prefix] = join(v)
        return out
    # typed list
    et = t[1]
    r = rng.random()
    if r < 0.4:
        try:
            n = nested(t, v, rng)
            if depth(n) <= 2 and wf_nested(n):
                if depth(n) == 1 and rng.random() < 0.4:
                    FEAT["list.semicolon-cell"] += 1
                    CP = type(_cp())
                    out[prefix] = ";".join(pad_text(CP.escape_string(x), "packed-item") for x in n) + (";" if len(n) == 1 else "")
                else:
                    FEAT["list.pipe-cell"] += 1
                    out[prefix] = join(n)
                return out
        except Ambiguous:
            FEAT["ambiguous-avoided"] += 1
    if R.kind(et) == "model" and r < 0.7 and v:
        # `*` columns: one column per sub-field, holding the list of the elements' values, or a single
        # value when all elements agree (broadcast up to the longest list among the columns of the prefix)
        specs = []
        ok = True
        for n, ft, d in et[2]:
            vals = [x[n] for x in v]
            try:
                ns = [nested(ft, x, rng, "pos") for x in vals]
            except Ambiguous:
                ok = False
                break
            hs = [n] + [h for h, f in et[3].items() if f == n]
            specs.append((f"{prefix}.*.{rng.choice(hs)}", ns, [d is not R.REQ and x == d for x in vals],
                          d if isinstance(d, str) else None))
        cols = star_group(specs, len(v), rng) if ok else None
        if cols:
            out.update(cols)
            return out
    for i, x in enumerate(v):
        encode(et, x, rng, f"{prefix}.{i+1}", out, False, sj)
    return out


def pack_cell(t, v, rng):
    """value as ONE cell (headers that are remapped by exact match cannot be spread)"""
    if R.kind(t) in R.BASIC:
        return pad_text(basic_text(v))
    try:
        n = nested(t, v, rng)
    except Ambiguous:
        n = nested(t, v, rng, "kw")
    if depth(n) > 2 or not wf_nested(n):
        return None
    return join(n)


def flow_short(t, sj, v, rng):
    """a FlowRowModel value written with the flow sheet's short headers"""
    # the meaning of the short headers comes from the specification side (the Lean schema, tied to the
    # source by Props.C07.tables_agree_*), NOT from the tree under test: an edited remap table must
    # not be followed by the layout generator
    sj = FLOW.get("spec") or sj
    basic = dict(sj["basic"])
    inv = {}
    for h, f in basic.items():
        inv.setdefault(f, []).append(h)
    mainarg = dict(sj["main"][2])
    out = {}
    tys = {n: (ft, d) for n, ft, d in t[2]}
    for n, ft, d in t[2]:
        if d is not R.REQ and v[n] == d:
            continue
        if n == "edges":
            edges = v[n]
            cols = {"edges.*.from_": [e["from_"] for e in edges]}
            for cf in ("value", "variable", "type", "name"):
                cols[f"edges.*.condition.{cf}"] = [e["condition"][cf] for e in edges]
            specs = [(rng.choice(inv[long]), vals, [x == "" for x in vals], "") for long, vals in cols.items()]
            pend = star_group(specs, len(edges), rng)
            if pend is None:
                return None  # e.g. a blank element that no list cell can end in
            out.update(pend)
            continue
        if n in inv and rng.random() < 0.7:
            c = pack_cell(ft, v[n], rng)
            if c is not None:
                out[rng.choice(inv[n])] = c
                continue
        if mainarg.get(v["type"]) == n and n in t[4] and rng.random() < 0.8:
            c = pack_cell(ft, v[n], rng)
            if c is not None:
                out[t[4][n]] = c
                continue
        if n == "webhook" and mainarg.get(v["type"]) == "webhook.body" and v[n]["body"] != "" and rng.random() < 0.7:
            w = dict(v[n])
            for wn, wt, wd in ft[2]:
                if wn == "body":
                    out[sj["main"][0]] = pad_text(w["body"])
                elif w[wn] != wd:
                    encode(wt, w[wn], rng, f"webhook.{wn}", out, False, sj)
            continue
        encode(ft, v[n], rng, n, out, False, sj)
    return out


def top_field(sj, t, header):
    if sj.get("main") and FLOW.get("spec"):
        sj = FLOW["spec"]
    h = dict(sj.get("basic") or []).get(header, header)
    main = sj.get("main")
    if main and header == main[0]:
        return "<main>"
    seg = h.split(".")[0]
    return t[3].get(seg, seg)


def permute(cols: dict, sj, t, rng):
    """shuffle columns keeping the relative order of the columns of one top-level field"""
    groups = {}
    for h in cols:
        groups.setdefault(top_field(sj, t, h), []).append(h)
    order = [g for g, hs in groups.items() for _ in hs]
    rng.shuffle(order)
    its = {g: iter(hs) for g, hs in groups.items()}
    return {h: cols[h] for h in (next(its[g]) for g in order)}


def variants(si, v, rng, n_random, n_perm):
    t, sj, meta = SCH[si]
    cls = R.mk_class(t)
    inst = R.instance(t, v)
    outs = []
    # unparse_row in a few admissible layouts
    lays, _ = G.layouts(rng, t, limit=12)
    adm = [l for l in lays if R.admissible(t, l) and R.any_spread_ok(t, l, v)]
    for lay in ([adm[0]] if adm else []) + rng.sample(adm, min(3, len(adm))):
        cells, raw = R.real_unparse(cls, inst, lay)
        if cells[0] == "ok":
            outs.append(("unparse", dict(cells[1])))
    for _ in range(n_random):
        # 30 % of the hand-built layouts are written with whitespace around cells and around the items of packed cells
        padded = rng.random() < 0.3
        PAD["rng"] = rng if padded else None
        sfx = "+padded" if padded else ""
        try:
            if meta["kind"] == "flow" and rng.random() < 0.7:
                e = flow_short(t, sj, v, rng)
                if e is not None:
                    outs.append(("short" + sfx, e))
                else:
                    outs.append(("encode" + sfx, encode(t, v, rng, sj=sj)))
            else:
                outs.append(("encode" + sfx, encode(t, v, rng, sj=sj)))
        finally:
            PAD["rng"] = None
        if padded and meta["kind"] == "flow":
            # the cell that selects the meaning of `message_text` (the row type) is padded like any other cell: it is
            # looked up trimmed (F-C09-b, fixed in 7d69602: the raw text was looked up, KeyError on ' send_message')
            tcol = (FLOW.get("spec") or sj)["main"][1]
            if tcol in outs[-1][1] and outs[-1][1][tcol] != v[tcol]:
                FEAT["pad.type-cell(F-C09-b)" + ("+message_text" if sj["main"][0] in outs[-1][1] else "")] += 1
    base = list(outs)
    for _ in range(n_perm if base else 0):
        tag, cols = rng.choice(base)
        if len(cols) > 1:
            outs.append((tag + "+perm", permute(cols, sj, t, rng)))
    return outs


def diff_paths(a, b, path="", acc=None, limit=8):
    """where two parse results differ: [(path, in a, in b)]"""
    acc = [] if acc is None else acc
    if len(acc) >= limit:
        return acc
    if isinstance(a, dict) and isinstance(b, dict) and set(a) == set(b):
        for k in a:
            diff_paths(a[k], b[k], f"{path}.{k}" if path else str(k), acc, limit)
    elif isinstance(a, (list, tuple)) and isinstance(b, (list, tuple)) and len(a) == len(b) and not (a and a[0] in ("ok", "err")):
        for i, (x, y) in enumerate(zip(a, b)):
            diff_paths(x, y, f"{path}[{i}]", acc, limit)
    elif isinstance(a, (list, tuple)) and isinstance(b, (list, tuple)) and len(a) == 2 and len(b) == 2 and a[0] == b[0] == "ok":
        diff_paths(a[1], b[1], path, acc, limit)
    elif a != b:
        acc.append([path or "<row>", a if not isinstance(a, (dict, list)) or len(json.dumps(a, default=str)) < 200 else "…",
                    b if not isinstance(b, (dict, list)) or len(json.dumps(b, default=str)) < 200 else "…"])
    return acc


def worker(cases):
    """cases: (schema index, value, sub-seed)"""
    import random

    drv = core.Driver()
    out = {"n": 0, "ties": [], "viol": [], "strata": {}, "keys": [], "samples": []}
    FEAT.clear()
    LAST_ROW = {}          # per shard: the previous layout of each schema
    reqs, meta = [], []
    for si, v, seed, nr, np_ in cases:
        rng = random.Random(seed)
        t, sj, m = SCH[si]
        vs = variants(si, v, rng, nr, np_)
        for tag, cols in vs:
            reqs.append({"op": "row.parse", "sch": sj, "data": [[k, c] for k, c in cols.items()]})
        meta.append((si, v, vs))
    answers = drv.results(reqs)
    for k, n in FEAT.items():
        out["strata"]["feature." + k] = n
    pos = 0
    for si, v, vs in meta:
        t, sj, m = SCH[si]
        cls = R.mk_class(t)
        results = []
        for tag, cols in vs:
            a = answers[pos]
            pos += 1
            real = R.real_parse(cls, t, cols)
            mod = R.model_result(a)
            out["n"] += 1
            out["strata"][f"layout.{tag}"] = out["strata"].get(f"layout.{tag}", 0) + 1
            if any("*" in h for h in cols) or (m["kind"] == "flow" and tag.startswith("short")):
                out["strata"]["layout.with-star-column"] = out["strata"].get("layout.with-star-column", 0) + 1
            if not R.same_outcome(real, mod):
                out["ties"].append({"what": "parse_row: model and real code differ", "cells": cols, "real": real, "model": mod,
                                    "schema": R.ty_json(t), "schema_name": t[1]})
            results.append(real)
            # the same cells parsed by a parser that has parsed other rows before (one RowParser per sheet,
            # as SheetParser uses it): a row's value depends on its own cells only
            prev = LAST_ROW.get(si)
            seq = ([prev] if prev is not None else []) + [cols, cols]
            again = R.real_parse_seq(cls, t, seq)
            out["strata"]["reused-parser.rows"] = out["strata"].get("reused-parser.rows", 0) + len(seq)
            bad = [i for i, r in enumerate(again) if seq[i] is cols and r != real]
            if bad and len(out["viol"]) < 40:
                rec = {
                    "what": "a row parsed by a parser that has parsed other rows before differs from the same cells parsed by a fresh parser",
                    "schema_name": t[1],
                    "rows_parsed_in_order_by_one_RowParser": seq,
                    "row_index": bad[0],
                    "fresh_parser": real, "reused_parser": again[bad[0]],
                    "parsed_rows_differ_at": diff_paths(real, again[bad[0]]),
                }
                if m["kind"] != "flow":
                    rec["schema"] = R.ty_json(t)
                out["viol"].append(rec)
            LAST_ROW[si] = cols
        want = ("ok", R.canon_plain(t, v))
        out["keys"].append(json.dumps([t[1], R.val_json(t, v)], sort_keys=True, ensure_ascii=False))
        distinct = []
        for (tag, cols), r in zip(vs, results):
            if r not in [d[1] for d in distinct]:
                distinct.append(((tag, cols), r))
        if len(distinct) > 1 or (distinct and distinct[0][1] != want):
            # pairwise inequality: show the two layouts; a uniform deviation from the data is reported too
            a = distinct[0]
            b = distinct[1] if len(distinct) > 1 else (("<the data itself>", None), want)
            # replay = the two cell rows (enough to re-run parse_row) and where the parsed rows differ; the
            # repo's own FlowRowModel needs no schema dump, other models carry their description
            rec = {
                "what": "equivalent layouts of one value parse to different rows" if len(distinct) > 1
                        else "every layout parses to the same row, but it is not the data that was laid out",
                "schema_name": t[1],
                "layout_a": {"kind": a[0][0], "cells": a[0][1]},
                "layout_b": {"kind": b[0][0], "cells": b[0][1]},
                "parsed_rows_differ_at": diff_paths(a[1], b[1]),
            }
            if m["kind"] != "flow":
                rec["schema"] = R.ty_json(t)
            out["viol"].append(rec)
        if len(out["samples"]) < 1 and len(vs) > 3:
            out["samples"].append({"schema": t[1], "layouts": [c for _, c in vs[:4]]})
    return out


# ------------------------------------------------------------------ corpus from the test-suite

def corpus(ck):
    """inputs of tests/test_differentways.py and tests/test_full_rows.py, nested values turned into cell
    text with the real join_from_lists, parsed with the real CellParser"""
    import os
    if os.environ.get("VERIF_C09_NO_CORPUS"):
        # switch for judging the generated layouts on their own (e.g. against a seeded change)
        ck.notes.append("test-suite corpus disabled by VERIF_C09_NO_CORPUS")
        ck.count("corpus.unavailable")
        return
    root = str(core.REPO)
    if root not in sys.path:
        sys.path.insert(1, root)
    try:
        dw = importlib.import_module("tests.test_differentways")
        fr = importlib.import_module("tests.test_full_rows")
        from tests.models import FromWrong
    except Exception as e:  # noqa: BLE001
        ck.notes.append(f"test-suite corpus not importable: {e!r}")
        ck.count("corpus.unavailable")
        return
    from .. tables import t07_flowrow as T
    from ..extract_tables import _parse

    cp = _cp()

    def cells(inp):
        if any(not isinstance(v, str) and depth(v) > 2 for v in inp.values()):
            return None  # a mock-parser input nested deeper than a cell can express
        return {k: (v if isinstance(v, str) else cp.join_from_lists(v)) for k, v in inp.items()}

    drv = core.Driver()
    maps = lambda cls: ([], [])  # noqa: E731  (tests/models.py declares no remaps)
    t = R.desc_of_class(FromWrong, maps)
    sj = R.schema_json(t)
    ins = [getattr(dw, f"input{i}") for i in range(1, 10)]
    res = []
    for inp in ins:
        c = cells(inp)
        if c is None:
            ck.count("corpus.skipped-too-deep-for-a-cell")
            continue
        real = R.real_parse(FromWrong, t, c)
        mod = R.model_result(drv.results([{"op": "row.parse", "sch": sj, "data": [[k, x] for k, x in c.items()]}])[0])
        ck.evaluations += 1
        ck.count("corpus.differentways")
        if not R.same_outcome(real, mod):
            ck.tie_break("corpus test_differentways: model and real code differ", {"cells": c, "real": real, "model": mod})
        res.append((c, real))
    want = ("ok", dw.output_instance)
    for c, r in res:
        if r != want:
            ck.violation("tests/test_differentways.py: the nine layouts of the same data do not parse to the same row (real CellParser)",
                         {"cells": c, "parsed": r, "expected": want})
    ft, fsj = FLOW["t"], FLOW["sj"]
    fcls = R.mk_class(ft)
    for i in range(1, 7):
        inp, exp = getattr(fr, f"input{i}"), getattr(fr, f"output{i}_exp")
        c = cells(inp)
        if c is None:
            ck.count("corpus.skipped-too-deep-for-a-cell")
            continue
        real = R.real_parse(fcls, ft, c)
        mod = R.model_result(drv.results([{"op": "row.parse", "sch": fsj, "data": [[k, x] for k, x in c.items()]}])[0])
        ck.evaluations += 1
        ck.count("corpus.full_rows")
        if not R.same_outcome(real, mod):
            ck.tie_break("corpus test_full_rows: model and real code differ", {"cells": c, "real": real, "model": mod})
        want = ("ok", R.canon_plain(ft, R.plain_of_instance(ft, exp)))
        if real != want:
            ck.violation("tests/test_full_rows.py input parsed with the real CellParser differs from the expected row",
                         {"cells": c, "parsed": real, "expected": want})


def known_finding_stream(ck):
    """F-C09-a: a record given by exactly two positional values whose first value is a field name is
    decoded as one keyword argument.  Deterministic; counterfactual: the keyword layout of the same data."""
    t = G.model("KW", [("word", "str", ""), ("number", "int", 0)])
    t = G.model("Holder", [("s", t, {"word": "", "number": 0})])
    sj = R.schema_json(t)
    cls = R.mk_class(t)
    v = {"s": {"word": "number", "number": 5}}
    want = ("ok", R.canon_plain(t, v))
    pos = {"s": "number;5"}
    kw = {"s": "word;number|number;5"}
    spread = {"s.word": "number", "s.number": "5"}
    rp, rk, rs = (R.real_parse(cls, t, x) for x in (pos, kw, spread))
    drv = core.Driver()
    mp = R.model_result(drv.results([{"op": "row.parse", "sch": sj, "data": [[k, x] for k, x in pos.items()]}])[0])
    ck.evaluations += 3
    if not R.same_outcome(rp, mp):
        ck.tie_break("F-C09-a trigger: model and real code differ", {"real": rp, "model": mp})
    if rk != want or rs != want:
        ck.violation("keyword / spread layout of Sub(word='number', number=5) does not parse to the data", {"keyword": rk, "spread": rs})
    elif rp == want:
        ck.notes.append("F-C09-a no longer reproduces")
    elif rp == ("ok", {"s": {"word": "", "number": 5}}):
        ck.known("F-C09-a", "positional 2-entry record whose first value is a field name decodes as keyword (documented ambiguity): "
                 "'number;5' for Sub(word, number) gives word='' number=5, the keyword layout of the same data gives word='number'",
                 {"positional": pos, "parsed": rp, "keyword": kw, "parsed_kw": rk})
    else:
        ck.violation("positional layout 'number;5' parses neither to the data nor in the way finding F-C09-a describes", {"parsed": rp})


def witness_stream(ck):
    """kernel-checked witnesses of Props/C09.lean replayed on the real code"""
    M = G.model
    t = M("ExPerm", [("a", "str", ""), ("xs", ("list", "str"), []), ("b", "int", 0)])
    cls = R.mk_class(t)
    good = R.real_parse(cls, t, {"xs.1": "p", "xs.2": "q"})
    bad = R.real_parse(cls, t, {"xs.2": "q", "xs.1": "p"})
    ck.evaluations += 2
    if good[0] != "ok" or bad[0] != "err":
        ck.tie_break("Lean witness column_perm_needs_different_fields does not behave like the real code", {"in_order": good, "swapped": bad})
    else:
        ck.count("witness.confirmed")
    # asterisk broadcast example: e.*.f = a with e.*.c = x|y  ==  e.*.f = a|a
    e = M("E", [("f", "str", ""), ("c", "str", "")])
    t2 = M("ExStar", [("e", ("list", e), [])])
    c2 = R.mk_class(t2)
    r1 = R.real_parse(c2, t2, {"e.*.f": "a", "e.*.c": "x|y"})
    r2 = R.real_parse(c2, t2, {"e.*.f": "a|a", "e.*.c": "x|y"})
    r3 = R.real_parse(c2, t2, {"e.1.f": "a", "e.2.f": "a", "e.1.c": "x", "e.2.c": "y"})
    ck.evaluations += 3
    if not (r1 == r2 == r3 and r1[0] == "ok"):
        ck.violation("a single value in a `*` column is not broadcast to every element of the list it abbreviates",
                     {"model": "class E(ParserModel): f: str = ''; c: str = ''  —  class Row(ParserModel): e: List[E] = []",
                      "cells_scalar": {"e.*.f": "a", "e.*.c": "x|y"}, "parsed_scalar": r1,
                      "cells_list": {"e.*.f": "a|a", "e.*.c": "x|y"}, "parsed_list": r2,
                      "cells_indexed": {"e.1.f": "a", "e.2.f": "a", "e.1.c": "x", "e.2.c": "y"}, "parsed_indexed": r3})
    else:
        ck.count("witness.confirmed")


def fold(ck, results):
    for r in results:
        ck.evaluations += r["n"]
        for k, n in r["strata"].items():
            ck.count(k, n)
        for t in r.get("ties", []):
            ck.tie_break(t["what"], t)
        for v in r["viol"]:
            ck.violation(v["what"], v)
        ck.nontrivial.update(r.get("keys", []))
        for s in r.get("samples", []):
            if len(ck.samples) < 6:
                ck.samples.append(s)


def structured_records(rng, et, names, n):
    """n records of type et as sheets typically hold them: some basic sub-fields carry ONE non-default value
    shared by all records (written as a single broadcast cell), some are filled for the leading records only
    (trailing defaults: a shorter list cell), at least one is filled for every record (the longest list)."""
    basic = [(fn, ft, d) for fn, ft, d in et[2] if R.kind(ft) in R.BASIC]
    if not basic:
        return None

    def nondefault(ft, d):
        for _ in range(20):
            x = G.gen_value(rng, ft, names, True, in_list=True)
            if d is R.REQ or x != d:
                return x
        return None

    recs = [{fn: (d if d is not R.REQ else G.gen_value(rng, ft, names, True, False, 2)) for fn, ft, d in et[2]} for _ in range(n)]
    rng.shuffle(basic)
    roles = ["full"] + [rng.choice(["shared", "trail", "trail", "shared", "full", "default"]) for _ in basic[1:]]
    for (fn, ft, d), role in zip(basic, roles):
        if role == "default" and d is not R.REQ:
            continue
        if role == "shared":
            x = nondefault(ft, d)
            if x is None:
                return None
            for r_ in recs:
                r_[fn] = x
        else:
            k = n if (role != "trail" or d is R.REQ or n < 2) else rng.randint(1, n - 1)
            for r_ in recs[:k]:
                x = nondefault(ft, d)
                if x is None:
                    return None
                r_[fn] = x
    return recs


def structure(rng, t, v, names):
    """replace the lists of records of a generated value by structured ones (see structured_records)"""
    for fn, ft, d in t[2]:
        if R.kind(ft) == "list" and R.kind(ft[1]) == "model" and rng.random() < 0.7:
            n = rng.choice([2, 3, 3, 4])
            if rng.random() < 2 * G.P_LONG:
                n = rng.choice(G.LONG)
                G.STRATA["lists.long(10-12).structured-records"] += 1
            recs = structured_records(rng, ft[1], names, n)
            if recs:
                v[fn] = recs
    return v


def structured_edges(rng, names):
    """router-style edges: one `from`, one condition type / variable for all, a value per edge, names for the
    leading edges only"""
    n = rng.choice([2, 3, 3, 4])
    if rng.random() < 2 * G.P_LONG:
        n = rng.choice(G.LONG)      # a menu with ten or more options
        G.STRATA["lists.long(10-12).router-style-edges"] += 1
    nb = lambda: G.gen_str(rng, names, True, nonblank=True)  # noqa: E731
    shared = {"from_": nb() if rng.random() < 0.8 else None, "type": nb() if rng.random() < 0.8 else None,
              "variable": nb() if rng.random() < 0.6 else None}
    k_name = rng.randint(1, n - 1) if rng.random() < 0.7 else n
    k_var = rng.randint(1, n - 1) if rng.random() < 0.3 else n
    edges = []
    for i in range(n):
        c = {"value": nb(), "variable": "", "type": "", "name": nb() if i < k_name else ""}
        c["type"] = shared["type"] if shared["type"] is not None else (nb() if rng.random() < 0.5 else "")
        c["variable"] = shared["variable"] if shared["variable"] is not None else (nb() if i < k_var else "")
        edges.append({"from_": shared["from_"] if shared["from_"] is not None else nb(), "condition": c})
    return edges


def blank_inner(rng, t, v):
    """v with ONE non-final element of one top-level List[str] field made blank (None if there is no such place):
    a blank item in the middle of a list is data like any other, in the one-cell and in the spread layout"""
    places = [n for n, ft, d in t[2] if R.kind(ft) == "list" and R.kind(ft[1]) == "str" and isinstance(v.get(n), list) and len(v[n]) >= 2]
    if not places:
        return None
    n = rng.choice(places)
    w = dict(v)
    w[n] = list(v[n])
    w[n][rng.randrange(len(w[n]) - 1)] = ""
    return w


def gen_cases(ck, per_schema, flow_n, n_random, n_perm):
    rng = ck.rng
    cases = []
    for si, (t, sj, meta) in enumerate(SCH):
        if meta["kind"] == "flow":
            continue
        names = G.field_names(t)
        got = 0
        for _ in range(per_schema * 4):
            if got >= per_schema:
                break
            v = G.gen_value(rng, t, names, True)
            if rng.random() < 0.4:
                v = structure(rng, t, v, names)
            if not (R.representable(t, v) and c07.remap_consistent(t, sj, v)):
                continue
            got += 1
            cases.append((si, v, rng.getrandbits(48), n_random, n_perm))
            if rng.random() < 0.25:
                w = blank_inner(rng, t, v)
                if w is not None:
                    ck.count("values.blank-inner-list-element")
                    cases.append((si, w, rng.getrandbits(48), n_random, n_perm))
    t, sj, fi = FLOW["t"], FLOW["sj"], FLOW["idx"]
    got = 0
    while got < flow_n:
        v = c07.flow_value(rng, clean=True, consistent=True)
        if rng.random() < 0.4:
            v["edges"] = structured_edges(rng, ["value", "type", "name", "from", "start"])
            ck.count("values.router-style-edges")
        if not (R.representable(t, v) and c07.remap_consistent(t, sj, v)):
            continue
        got += 1
        cases.append((fi, v, rng.getrandbits(48), n_random, n_perm))
    c07.take_value_strata(ck)
    return cases


def run(ck: core.Check):
    ck.lean = core.lean_step("C09", thorough=(ck.tier == "thorough"))
    ck.rule = (
        "case = one layout (dict header → cell text) of one value; per value: unparse_row in up to 4 admissible target-header "
        "sets + random hand-built layouts (each field spread or packed; list cells with | or ;; records positional / keyword / "
        "mixed / single scalar; lists of records as `*` columns in shuffled order — a single broadcast cell where all elements agree, "
        "the full list, or the list without its trailing default-valued elements, so that the list cells of one prefix have UNEQUAL "
        "lengths (longest first / middle / last) next to broadcast cells; 40 % of the values hold structured lists of records "
        "(shared sub-field values, sub-fields filled for the leading records only; router-style edges for flow rows); flow rows with short "
        "headers from/condition/condition_value/condition_var/condition_variable/condition_type/condition_name/message_text/"
        "_nodeId/_ui_type/_ui_position or long forms, mixed) + permutations of columns of different top-level fields; 30 % of the "
        "hand-built layouts are PADDED: whitespace of any kind (every code point with str.isspace(): ASCII, NBSP, U+0085, U+1680, "
        "U+2000–U+200A, U+2028/9, U+202F, U+205F, U+3000, U+001C–U+001F) around cells and around the items of packed cells, next to "
        "the | and ; separators — trimmed on reading in every layout. Values: "
        "representable domain of C07 over the same schema family and alphabet (incl. strings with a zero-width space / BOM at an "
        "edge, which no layout trims, exotic whitespace inside strings, and lists of 10–12 entries: records, lists, edges). distinct = distinct (schema, value); a value is "
        "non-trivial by construction (≥ 2 layouts compared)."
    )
    ck.assumptions = [
        "pydantic v1 and CPython primitives as in C07",
        "Unambiguous: no record written as exactly two positional values the first of which names a field, no positional entry that is such a pair (documented ambiguity, finding F-C09-a) — generated layouts avoid it",
        "columns of one top-level field keep their relative order (the code asserts list indices arrive in order)",
    ]
    ck.partial_gap = PARTIAL_GAP
    if not core.DRIVER_BIN.exists():
        raise core.Infra("driver not built:\n" + ck.lean.log[-2000:])
    quick = ck.tier == "quick"
    c07.setup_schemas(ck.rng, 30 if quick else 120)
    FLOW["spec"] = core.Driver().results([{"op": "row.flowschema"}])[0]
    ck.evaluations += 1
    if R.canon_schema(FLOW["spec"]) != R.canon_schema(FLOW["sj"]):     # remap tables are lookups: compared up to order
        ck.tie_break("Rpft.Row.flowRowSchema (specification of the short headers) differs from flowrowmodel.py in the working tree",
                     {"lean_basic": FLOW["spec"].get("basic"), "source_basic": FLOW["sj"].get("basic")})
    corpus(ck)
    cases = gen_cases(ck, per_schema=200 if quick else 1200, flow_n=5000 if quick else 40000, n_random=6, n_perm=4 if quick else 12)
    fold(ck, par.pmap(worker, core.shard(cases, par.NPROC * 2)))
    known_finding_stream(ck)
    witness_stream(ck)
    corpus_need = () if ck.strata.get("corpus.unavailable") else ("corpus.differentways", "corpus.full_rows")
    for need in ("layout.unparse", "layout.encode", "layout.short", "layout.with-star-column", "layout.encode+perm") + corpus_need + (
                 "feature.record.positional", "feature.record.keyword", "feature.record.mixed", "feature.list.semicolon-cell",
                 "feature.star.broadcast", "feature.star.list", "feature.star.unequal-lists",
                 "feature.star.unequal-lists.longest-first", "feature.star.unequal-lists.longest-middle",
                 "feature.star.unequal-lists.longest-last", "feature.star.unequal+broadcast",
                 "feature.star.unequal+broadcast.last-list-shorter", "values.router-style-edges",
                 "layout.encode+padded", "layout.short+padded", "feature.pad.unicode-space.packed-item",
                 "feature.pad.ascii-space.packed-item", "feature.pad.unicode-space.spread-cell",
                 "feature.pad.type-cell(F-C09-b)+message_text",
                 "values.strings.zero-width-at-edge(kept by strip)"):
        if not ck.strata.get(need):
            raise core.Infra(f"generator self-check: stratum {need} is empty")
    if (ck.tie_breaks or not ck.lean.ok) and not ck.violations and quick:
        ck.search_ran = True
        more = gen_cases(ck, per_schema=200, flow_n=6000, n_random=8, n_perm=8)
        fold(ck, par.pmap(worker, core.shard(more, par.NPROC * 2)))


PARTIAL_GAP = [
    "asterisk_expand / asterisk_broadcast / column_perm are proved for every schema; short_eq_long, message_text_eq_main_arg and the whole-row short_row_eq_indexed_row for the flow row schema with the T1 tables, for arbitrary other columns and cell texts",
    "layout_independent holds for the whole family of C07's general theorem parse_unparse (any nesting, remapped headers, FlowRowModel itself)",
    "positional vs keyword is proved in general at the level of parsed cell values (positional_eq_keyword over the relation Enc: any nesting, mixed entries, lists of records) with cell-text corollaries; the keyword-first ambiguity (F-C09-a) is a hypothesis at both the whole-value and the entry level, each with a kernel-checked witness",
    "short_row_eq_indexed_row covers rows whose * columns are the string leaves of an edge holding flat lists (witnesses short_row_needs_string_leaves / short_row_needs_flat_star_cells); str() of a list-valued element is a Python repr, outside the model",
]


def replay(path):
    rec = json.load(open(path))
    print(json.dumps(rec, indent=1, ensure_ascii=False)[:6000])
    return 0
