"""C12 — a template instantiated in bulk equals the same template instantiated row by row.

A  proof step: Rpft.Props.C12 over the model Rpft/Bulk.lean (parse_all_flows, _parse_flow,
   map_template_arguments_to_context; the template compiler is an abstract function of
   template, flow name and context).
B  tie: (1) model mapArgs vs the real `ContentIndexParser.map_template_arguments_to_context`
   on generated definitions / arguments / contexts (resulting context, first error, warning);
   (2) model parseAllFlows (names, order, first error) vs the real `parse_all_flows`, the model
   input being read off the real parser's registries after it has read the index.
C  direct oracle on the REAL code, metamorphic: index A (one bulk row) vs index B (one row per
   data row ID, same order) vs B' (B permuted) vs solo indexes (one row, fresh parser each):
   names / order, canonical JSON up to invented uuids, Lean-checked bisimulation as a second
   opinion, equal outcome (same errors) when the template cannot be instantiated.
   Second stream (harness/c12_mixed.py): templates legal with AND without a data row (`default` / `is defined`),
   one index mixing bulk / single / data-less rows of the same template, the block inserted with and without data
   in both orders, over data sheets with 0 (header only), 1 or several rows and sheets derived by `filter` operations that
   keep all / some / none of them (zero rows: zero flows): every flow must send exactly what the template evaluated with ITS row and arguments says
   (computed by the generator, independent of the real code) and equal the same instance generated in a permuted
   index, as explicit single rows in the opposite order, and alone by a fresh parser.
"""
from __future__ import annotations

import json
import logging
import random
import re
import time

from .. import c12_mixed as M
from .. import core, par
from ..flows import LogCapture, canon_flow, mem_reader, rename_uuids_by_first_occurrence, rows_to_csv
from ..gen import sheets as G

MANIFEST = dict(
    text="Proof: Lean theorems over a line-by-line model of parse_all_flows / _parse_flow / map_template_arguments_to_context with the template compiler as an abstract function of (template, flow name, context): bulk_eq_singles (anywhere in an index and after any history a bulk row may be replaced by the single rows naming each data row, in data order: same flows, same order, same error), bulk_names (one flow per data row, in data order, named `<name> - <ID>`, the k-th being the instance of the k-th row), bulk_empty_sheet (a bulk row over a sheet holding no row — header only, or a filter that keeps nothing — may be deleted from the index: no flow, no error, the template is not even looked up), args_positional / args_spec / args_extras_ignored / args_extras_warn / args_trailing_blank / args_doubly_defined / args_missing / args_sheet_unknown (positional binding, default, missing, doubly defined, sheet, extras), no_leak (the flow left under `base - i` is an expression in the index row, the registries and i only, whatever was generated before or around it) and no_leak_frame (it depends on the data sheets only through row i and the sheets its `sheet` arguments name), bulk_order_independent (if no name is defined twice, permuting the index rows gives the same flow per name). In a functional model these are close to definitional — they fix the specification; the weight is on the tie: the REAL code is run on index A (bulk row) / B (one row per ID) / B' (permuted) / one fresh parser per instance, for generated data sheets of 0..5 rows (0 = header only), the bulk row running over the sheet itself or over a sheet derived by a `filter` operation that keeps all, some or none of its rows, and generated templates (loops over data lists, ranges and `sheet` arguments, include_if on data fields, inserted blocks with arguments, nested fields, all argument kinds, leakage probes incl. templates that mutate their context) and must give the same names, order, canonical JSON (and Lean-checked bisimilar flows) or the same errors; a second stream generates templates that are legal with and without a data row (every variable read through `default` / `is defined`, declared arguments none or defaulted), instantiated in one index in bulk, as single rows and without any data, in both orders, the template inserting a block with data, without, or both, over a data sheet of 0..4 rows and filtered sheets keeping all / some / none of them (a bulk row over zero rows must add no flow — such a template would compile without a row, so only the list of flows shows it): every flow must send exactly the messages the generator computes from its own row and arguments (independent of the real code) and equal the same instance in a permuted index, as explicit rows in the opposite order and generated alone; model mapArgs / parseAllFlows are compared with the real methods on the same inputs.",
    ref="§5 C12",
    note="Trusts: Lean kernel; harness generators and canonicaliser; Driver JSON codec; that FlowParser is a function of (table, name, context) is NOT proved — it is what the A/B/B'/solo comparison tests on every case. Row IDs are assumed non-blank (hypothesis of bulk_names, negative witness needs_nonblank_ids; known finding F-C12-a: a data row with a blank ID is instantiated as a flow called `<name>` with an empty context). Arguments that are themselves lists are outside the model.",
    technique="Lean 4 proof (structural induction over association-list dictionaries, permutation lemmas) + metamorphic bulk-vs-single check on the real code + model/code differential run",
)

H = G.HEADERS
IH = ["type", "sheet_name", "data_sheet", "data_row_id", "new_name", "template_arguments", "operation"]
FULL = {"catNames": True, "resultName": True}
ID_POOL = ["r1", "r2", "row 3", "A-B", "x - y", "7", "é1", "Zed", "q.9", "w1;d2", "en|GB", "a\;b", "t;"]   # an ID is an opaque string: separators and escapes of the cell syntax included
WORDS = ["alpha", "beta", "gamma", "delta"]
BLANK_ID_WARNING = "For create_flow, if no data_sheet is provided, data_row_id should be blank as well."


# ------------------------------------------------------------------ running the real code


class Run:
    def __init__(self):
        self.doc = None
        self.exc = None
        self.exc_type = None
        self.exc_args = None
        self.errors = []
        self.criticals = []
        self.warnings = []
        self.model_input = None

    @property
    def ok(self):
        return self.exc is None and not self.errors and self.doc is not None

    def outcome(self):
        """what a user sees: an exception, error records, or a document"""
        if self.exc is not None:
            return ("exception", self.exc)
        if self.errors:
            return ("errors", list(self.errors))
        return ("ok", None)


def jsonable(v):
    if hasattr(v, "dict") and callable(v.dict) and not isinstance(v, dict):
        v = v.dict()
    if isinstance(v, dict):
        return {str(k): jsonable(x) for k, x in v.items()}
    if isinstance(v, (list, tuple)):
        return [jsonable(x) for x in v]
    if v is None or isinstance(v, (bool, int, float, str)):
        return v
    return repr(v)


def registries(parser) -> dict:
    """model input read off the real parser after it has read the index (tie boundary)"""
    sheets = []
    for name, ds in parser.data_sheets.items():
        rows = []
        for rid, row in ds.rows.items():
            rows.append([rid, [[k, jsonable(v)] for k, v in dict(row).items()]])
        sheets.append([name, rows])
    templates = [[name, [[d.name, d.type, d.default_value] for d in ts.argument_definitions]]
                 for name, ts in parser.template_sheets.items()]
    rows = []
    for _, r in parser.flow_definition_rows:
        rows.append({"sheet_name": r.sheet_name[0], "new_name": r.new_name, "data_sheet": r.data_sheet,
                     "data_row_id": r.data_row_id, "args": list(r.template_arguments)})
    return {"sheets": sheets, "templates": templates, "rows": rows}


def run_index(sheets: dict) -> Run:
    from rpft.parsers.creation.contentindexparser import ContentIndexParser
    from rpft.parsers.creation.tagmatcher import TagMatcher

    res = Run()
    with LogCapture() as cap:
        try:
            parser = ContentIndexParser(mem_reader(sheets), None, TagMatcher([]))
            try:
                mi = registries(parser)
                if all(isinstance(a, str) for r in mi["rows"] for a in r["args"]):
                    res.model_input = mi
            except Exception:  # noqa: BLE001 — registries of an unexpected shape: no model tie for this case
                res.model_input = None
            res.doc = parser.parse_all().render()
        except BaseException as e:  # noqa: BLE001
            if isinstance(e, (KeyboardInterrupt, SystemExit)):
                raise
            res.exc = f"{type(e).__name__}: {e}"
            res.exc_type = type(e).__name__
            res.exc_args = [str(a) for a in e.args]
    res.errors = cap.errors()
    res.criticals = cap.criticals()
    res.warnings = cap.warnings()
    return res


# ------------------------------------------------------------------ generator


def args_cell(args: list[str]) -> str:
    if not args:
        return ""
    if len(args) == 1:
        return args[0]
    s = ";".join(a.replace("\\", "\\\\").replace(";", "\\;").replace("|", "\\|") for a in args)
    if args[-1] == "":
        s += ";"
    return s


def defs_cell(defs: list[tuple]) -> str:
    cell = "|".join(";".join(d) for d in defs)
    if len(defs) == 1:
        cell += "|"
    return cell


def gen_case(rng: random.Random, kind: str) -> dict:
    """kind: 'valid' | 'probe' (leakage probes) | 'malformed' (argument / reference faults)"""
    n = rng.choice([0, 1, 2, 2, 3, 3, 4, 5])      # 0: a header-only data sheet — zero rows, zero flows
    ids = rng.sample(ID_POOL, n)
    feats = set()
    # ---- data sheet (inferred model)
    heads = ["ID", "word"]
    use_count = rng.random() < 0.8
    use_items = rng.random() < 0.8
    n_items = rng.choice([2, 3])
    use_flag = rng.random() < 0.5
    use_pair = rng.random() < 0.4
    if use_count:
        heads.append("count:int")
    if use_items:
        heads += [f"items.{k}" for k in range(1, n_items + 1)]
    if use_flag:
        heads.append("flag")
    if use_pair:
        heads += ["pair.a", "pair.b:int"]
    data_rows = []
    for i in ids:
        row = {"ID": i, "word": rng.choice(WORDS)}
        if use_count:
            row["count:int"] = str(rng.randint(0, 3))
        if use_items:
            k_full = rng.randint(1, n_items)
            for k in range(1, n_items + 1):
                row[f"items.{k}"] = (rng.choice("xyz") + str(k)) if k <= k_full else ""
        if use_flag:
            row["flag"] = rng.choice(["yes", "no"])
        if use_pair:
            row["pair.a"] = rng.choice(["pa", "pb"])
            row["pair.b:int"] = str(rng.randint(1, 9))
        data_rows.append(row)
    # the bulk row may run over a sheet derived from `data` by a `filter` operation keeping all / some / none of its rows
    # (which rows are kept is computed here, not read off the real code)
    view = None
    if rng.random() < 0.35:
        if use_count and rng.random() < 0.5:
            k = rng.choice([-1, 0, 1, 3])
            view = {"expr": f"count > {k}", "ids": [r["ID"] for r in data_rows if int(r["count:int"]) > k]}
        else:
            w = rng.choice(WORDS + [r["word"] for r in data_rows] + ["omega"])
            view = {"expr": f"word=='{w}'", "ids": [r["ID"] for r in data_rows if r["word"] == w]}
        ids = view["ids"]
        feats.add("bulk_over_filter_view")
    if not ids:
        feats.add("empty_by_filter" if data_rows else "empty_header_only")
    feats.add("bulk_rows_" + ("0" if not ids else "1" if len(ids) == 1 else "many"))
    others = {
        "other": [{"ID": f"o{k}", "label": f"L{k}"} for k in range(1, rng.randint(1, 3) + 1)],
        "other2": [{"ID": f"p{k}", "label": f"M{k}"} for k in range(1, rng.randint(1, 2) + 1)],
    }
    # ---- argument definitions of the template and the arguments of the create_flow row
    defs, given, scope = [], [], ["word"]
    sheet_self = False
    if rng.random() < 0.75:
        req = rng.random() < 0.3
        defs.append(("extra", "", "" if req else "dflt"))
        given.append(rng.choice(["E1", "E 2"]) if req or rng.random() < 0.5 else "")
        scope.append("extra")
        feats.add("arg_required_given" if req else ("arg_positional" if given[-1] else "arg_defaulted"))
    use_sh = rng.random() < 0.6
    if use_sh:
        req = rng.random() < 0.3
        defs.append(("sh", "sheet", "" if req else "other"))
        if kind == "probe" and rng.random() < (0.7 if use_items else 0.4):
            given.append("data")
            sheet_self = True
        else:
            given.append(rng.choice(["other", "other2"]) if req or rng.random() < 0.5 else "")
        feats.add("arg_sheet")
    if rng.random() < 0.4:
        defs.append(("opt", rng.choice(["", "str"]), "zz"))
        given.append(rng.choice(["", "", "O"]))
        scope.append("opt")
        feats.add("arg_defaulted" if not given[-1] else "arg_positional")
    use_oid = rng.random() < 0.4
    if use_oid:
        defs.append(("oid", "", "o1"))
        given.append("")
    # trailing blanks that are not needed / extras
    while given and given[-1] == "" and rng.random() < 0.5:
        given.pop()
        feats.add("arg_omitted_trailing")
    r = rng.random()
    if r < 0.25:
        given = given + [""] * (len(defs) - len(given)) + [""] * rng.randint(1, 2)
        feats.add("arg_extra_blank")
    elif r < 0.32:
        given = given + [""] * (len(defs) - len(given)) + ["", "EXTRA"]
        feats.add("arg_extra_nonblank")
    # ---- the inserted block template
    blk = [
        {"row_id": "b1", "type": "send_message", "from": "start", "message_text": "block {{label}} for {{bword}}"},
    ]
    if rng.random() < 0.5:
        blk.append({"row_id": "b2", "type": "send_message", "from": "b1", "message_text": "block more {{bword}}",
                    "include_if": "{{bword != 'beta'}}"})
    # ---- the template
    t = [{"row_id": "t1", "type": "send_message", "from": "start",
          "message_text": "T " + " ".join("{{" + v + "}}" for v in scope) + (" {{count}}" if use_count else "")}]
    last = "t1"
    loop_var_after = None

    def frm(src):
        # rows follow each other (blank `from` = continue from the previous included row / loop / block);
        # only the default exit of the wait is named explicitly
        return src if src == "tw" else ""

    if use_items and rng.random() < 0.85:
        cond = ""
        if kind == "probe" and use_count and rng.random() < 0.5:
            cond = "{{count > 1}}"      # the loop exists in some instances only
        t.append({"row_id": "tl", "type": "begin_for", "from": frm(last), "loop_variable": "it;k", "message_text": "{@items@}",
                  "include_if": cond})
        t.append({"row_id": "t2", "type": "send_message", "from": "", "message_text": "item {{k}} {{it}} of {{word}}",
                  "include_if": rng.choice(["", "", "{{k == 0}}", "{{it != ''}}"])})
        t.append({"row_id": "", "type": "end_for"})
        if not cond:
            last = "tl"
        else:
            t.append({"row_id": "tl_after", "type": "send_message", "from": "", "message_text": "after the optional loop"})
            last = "tl_after"
        loop_var_after = "it"
        feats.add("loop_items")
    if use_count and rng.random() < 0.4:
        t.append({"row_id": "tr", "type": "begin_for", "from": frm(last), "loop_variable": "n", "message_text": "{@range(count + 1)@}"})
        t.append({"row_id": "t2r", "type": "send_message", "from": "", "message_text": "n {{n}} {{word}}"})
        t.append({"row_id": "", "type": "end_for"})
        last = "tr"
        loop_var_after = loop_var_after or "n"
        feats.add("loop_range_data")
    if use_sh and rng.random() < 0.8:
        t.append({"row_id": "ts", "type": "begin_for", "from": frm(last), "loop_variable": "o", "message_text": "{@sh.values()|list@}"})
        txt = "sheet row {{o.ID}} {{o.items}}" if sheet_self and use_items else ("sheet row {{o.ID}}" if sheet_self else "sheet row {{o.label}} {{word}}")
        t.append({"row_id": "t2s", "type": "send_message", "from": "", "message_text": txt})
        t.append({"row_id": "", "type": "end_for"})
        last = "ts"
        feats.add("loop_sheet_arg")
    inc = []
    if use_count:
        inc.append("{{count > 1}}")
    if use_flag:
        inc.append("{{flag == 'yes'}}")
    inc.append("{{word == 'alpha'}}")
    if rng.random() < 0.8:
        t.append({"row_id": "ti", "type": "send_message", "from": frm(last), "message_text": "only some {{word}}",
                  "include_if": rng.choice(inc)})
        feats.add("include_if_data")
        # `last` stays: an excluded row cannot be a source
    if use_pair and rng.random() < 0.8:
        t.append({"row_id": "tp", "type": "send_message", "from": frm(last), "message_text": "pair {{pair.a}}/{{pair.b}}"})
        last = "tp"
        feats.add("nested_field")
    has_insert = rng.random() < 0.6
    if has_insert:
        t.append({"row_id": "tb", "type": "insert_as_block", "from": frm(last), "message_text": "blk", "data_sheet": "other",
                  "data_row_id": "{{oid}}" if use_oid else "o1",
                  "template_arguments": rng.choice(["{{word}}", "{{word if word != 'alpha' else ''}}", "{{word if word != 'alpha' else ''}}", ""])})
        last = "tb"
        feats.add("insert_as_block")
    if rng.random() < 0.5:
        t.append({"row_id": "tw", "type": "wait_for_response", "from": frm(last)})
        t.append({"row_id": "ty", "type": "send_message", "from": "tw", "condition": "{{word}}", "message_text": "matched {{word}}"})
        if rng.random() < 0.5:
            t.append({"row_id": "", "type": "hard_exit", "from": "ty"})
        last = "tw"
        feats.add("wait")
    if rng.random() < 0.3:
        t.append({"row_id": "tg", "type": "add_to_group", "from": frm(last), "message_text": "G {{word}}"})
        last = "tg"
        feats.add("group")
    pre_rows, post_rows = [], []
    extra_sheets = {}
    # ---- probes / faults
    probe = None
    if kind == "probe":
        choices = ["mutate"] * 4 if (sheet_self and use_items) else []
        if loop_var_after:
            choices += ["loop_var", "loop_var"]
        if has_insert:
            choices.append("block_arg")
        choices += ["other_template_arg", "mutate_own" if use_items else "other_template_arg"]
        probe = rng.choice(choices)
        if probe == "loop_var":
            t.append({"row_id": "tz", "type": "send_message", "from": frm(last), "message_text": "after loop [{{" + loop_var_after + "}}]"})
        elif probe == "block_arg":
            t.append({"row_id": "tz", "type": "send_message", "from": frm(last), "message_text": "after block [{{" + rng.choice(["bword", "label"]) + "}}]"})
        elif probe == "other_template_arg":
            extra_sheets["tmpl2"] = rows_to_csv(H, [{"row_id": "u1", "type": "send_message", "from": "start", "message_text": "second {{secret}}"}])
            pre_rows.append({"type": "template_definition", "sheet_name": "tmpl2", "template_arguments": "secret;;s3cr3t|"})
            pre_rows.append({"type": "create_flow", "sheet_name": "tmpl2", "template_arguments": rng.choice(["", "S"])})
            t.append({"row_id": "tz", "type": "send_message", "from": frm(last), "message_text": "other template [{{secret}}]"})
        elif probe in ("mutate", "mutate_own"):
            # a template that changes a list of its context while being evaluated: visible to this instance only
            t.insert(1, {"row_id": "tm", "type": "send_message", "from": "", "message_text": "{@ items.append('LEAK') or 'mutated' @}"})
            t.append({"row_id": "tz", "type": "send_message", "from": frm(last), "message_text": "items now {{items}}"})
        feats.add("probe_" + probe)
    fault = None
    if kind == "malformed":
        fault = rng.choice(["missing_required", "doubly_defined", "unknown_sheet", "undefined_field", "too_few_for_required"])
        if fault in ("missing_required", "too_few_for_required"):
            defs.append(("must", "", ""))
            given = given[:len(defs) - 1]
            if fault == "missing_required":
                given = given + [""] * (len(defs) - len(given))
        elif fault == "doubly_defined":
            defs.append((rng.choice(["word", "ID"] + (["extra"] if "extra" in scope else [])), "", "dd"))
        elif fault == "unknown_sheet":
            defs.append(("sh2", "sheet", "nowhere"))
        elif fault == "undefined_field":
            t.append({"row_id": "tz", "type": "send_message", "from": frm(last), "message_text": "no such field {{nofield}}"})
        feats.add("fault_" + fault)
    # ---- a plain flow around it
    if rng.random() < 0.5:
        main = [
            {"row_id": "m1", "type": "send_message", "from": "start", "message_text": "main"},
            {"row_id": "m2", "type": "start_new_flow", "from": "m1", "message_text": "T - " + rng.choice(ids)} if ids else
            {"row_id": "m2", "type": "send_message", "from": "m1", "message_text": "nobody to start"},
        ]
        extra_sheets["main"] = rows_to_csv(H, main)
        (pre_rows if rng.random() < 0.5 else post_rows).append({"type": "create_flow", "sheet_name": "main"})
        feats.add("main_flow_refers_to_instance" if ids else "main_flow_beside_empty_bulk")
    new_name = rng.choice(["T", "T", ""])
    if "main" in extra_sheets and not new_name:
        new_name = "T"
    head_rows = [{"type": "data_sheet", "sheet_name": "data"}, {"type": "data_sheet", "sheet_name": "other"},
                 {"type": "data_sheet", "sheet_name": "other2"}] + (
        [{"type": "data_sheet", "sheet_name": "data", "new_name": "fdata", "operation": "filter|expression;" + view["expr"]}] if view else []) + [
                 {"type": "template_definition", "sheet_name": "tmpl", "template_arguments": defs_cell(defs)},
                 {"type": "template_definition", "sheet_name": "blk", "template_arguments": "bword;;nobody|"}]
    base = {
        "data": rows_to_csv(heads, data_rows),
        "other": rows_to_csv(["ID", "label"], others["other"]),
        "other2": rows_to_csv(["ID", "label"], others["other2"]),
        "tmpl": rows_to_csv(H, t),
        "blk": rows_to_csv(H, blk),
    }
    base.update(extra_sheets)
    bulk = {"type": "create_flow", "sheet_name": "tmpl", "data_sheet": "fdata" if view else "data", "data_row_id": "", "new_name": new_name,
            "template_arguments": args_cell(given)}
    # what the property's own words say the first message is: data field, then each declared argument
    # bound positionally, a blank / absent one taking its default (only when nothing is wrong with the arguments)
    expect_first = None
    if kind != "malformed":
        expect_first = {}
        for row in data_rows:
            parts = ["T", row["word"]]
            for k, d in enumerate(defs):
                if d[0] in scope:
                    parts.append(given[k] if k < len(given) and given[k] != "" else d[2])
            if use_count:
                parts.append(str(int(row["count:int"])))
            expect_first[row["ID"]] = " ".join(parts)
    return {"base": base, "head": head_rows, "pre": pre_rows, "post": post_rows, "bulk": bulk, "ids": ids, "expect_first": expect_first,
            "name": new_name or "tmpl", "features": sorted(feats), "kind": kind, "probe": probe, "fault": fault,
            "given": given, "defs": [list(d) for d in defs]}


def workbook(case: dict, variant, order=None) -> dict:
    """A: the bulk row; B: one row per ID in `order` (default data order); ('solo', id): that row only"""
    if variant == "A":
        mid = [case["bulk"]]
    elif variant == "B":
        mid = [dict(case["bulk"], data_row_id=i) for i in (order or case["ids"])]
    else:
        mid = [dict(case["bulk"], data_row_id=variant[1])]
    rows = case["head"] + case["pre"] + mid + case["post"]
    return dict(case["base"], content_index=rows_to_csv(IH, rows))


# ------------------------------------------------------------------ oracle C


def flows_by_name(doc):
    out = {}
    for f in doc["flows"]:
        out.setdefault(f["name"], []).append(f)
    return out


def canon1(flow):
    return rename_uuids_by_first_occurrence(flow)[0]


def first_diff(a, b, path=""):
    if type(a) is not type(b):
        return f"{path}: {a!r} vs {b!r}"[:300]
    if isinstance(a, dict):
        for k in list(a) + [k for k in b if k not in a]:
            if k not in a or k not in b:
                return f"{path}/{k}: present on one side only"
            d = first_diff(a[k], b[k], f"{path}/{k}")
            if d:
                return d
        return None
    if isinstance(a, list):
        if len(a) != len(b):
            return f"{path}: {len(a)} vs {len(b)} elements"
        for i, (x, y) in enumerate(zip(a, b)):
            d = first_diff(x, y, f"{path}/{i}")
            if d:
                return d
        return None
    return None if a == b else f"{path}: {a!r} vs {b!r}"[:300]


def check_case(case: dict, drv, rng: random.Random | None = None, perm=None, want_bisim=True):
    """Oracle C on the real code.  Returns (status, problems, info): problems = list of (what, detail)."""
    ids = case["ids"]
    base = case["name"]
    expected_names = [f"{base} - {i}" for i in ids]
    A = run_index(workbook(case, "A"))
    B = run_index(workbook(case, "B"))
    if perm is None:
        perm = list(ids)
        if rng is not None and len(ids) > 1:
            while perm == ids:
                rng.shuffle(perm)
        else:
            perm.reverse()
    Bp = run_index(workbook(case, "B", order=perm))
    solos = {i: run_index(workbook(case, ("solo", i))) for i in ids}
    problems = []
    info = {"A": A, "B": B, "perm": perm, "pairs": 0, "status": None}

    def rej(r):
        return [r.exc, r.errors[:3]]

    # -- outcome agreement (same error or both fine)
    if A.ok != B.ok:
        problems.append(("the bulk row compiles but the same instances as single rows are rejected" if A.ok
                         else "the bulk row is rejected but the same instances as single rows compile",
                         {"bulk": rej(A), "singles": rej(B)}))
    elif not A.ok and A.outcome() != B.outcome():
        problems.append(("bulk and single rows are rejected with different errors", {"bulk": rej(A), "singles": rej(B)}))
    if B.ok != Bp.ok:
        problems.append(("single rows compile in one order and are rejected in another", {"data_order": rej(B), "permuted": rej(Bp), "order": perm}))
    elif not B.ok and B.exc is None and Bp.exc is None and sorted(B.errors) != sorted(Bp.errors):
        problems.append(("single rows are rejected with different errors when permuted", {"data_order": rej(B), "permuted": rej(Bp), "order": perm}))
    all_solo_ok = all(s.ok for s in solos.values())
    if A.ok != all_solo_ok:
        problems.append(("the bulk row compiles but some instance compiled alone is rejected" if A.ok
                         else "the bulk row is rejected but every instance compiles when generated alone",
                         {"bulk": rej(A), "alone": {i: rej(s) for i, s in solos.items() if not s.ok}}))
    elif not A.ok and A.exc is None and all(s.exc is None for s in solos.values()):
        # errors come from the instances (the fixed flows around them compile): bulk errors = the instances' errors, in order
        extra_ok = True
        fixed = []
        if case["pre"] or case["post"]:
            # errors of the flows around the bulk row are part of every run; remove one copy per solo run
            extra_ok = False
        if extra_ok:
            concat = [e for i in ids for e in solos[i].errors]
            if concat != A.errors:
                problems.append(("the errors of the bulk run are not the errors of its instances generated alone, in data order",
                                 {"bulk": A.errors[:6], "alone": {i: s.errors[:3] for i, s in solos.items()}}))
    if not A.ok:
        info["status"] = "rejected"
        rc = real_class(A)
        if case.get("kind") == "valid" and rc is not None and rc[0] in ARG_KINDS + ("argProblem",):
            # by construction every required argument is given and every declared name is new: the property's
            # own words (positional binding, blank → default) say these arguments are fine
            problems.append(("correct template arguments are rejected (bulk and single rows alike)",
                             {"error": A.criticals[:2], "definitions": case["defs"], "arguments": case["given"]}))
        tie_reqs = [(label, run, tie_req(run)) for label, run in (("A", A), ("B", B))]
        tie_reqs = [t for t in tie_reqs if t[2] is not None]
        answers = drv.results([t[2] for t in tie_reqs]) if tie_reqs else []
        info["ties"] = [(label, tie_eval(run, ans)) for (label, run, _), ans in zip(tie_reqs, answers)]
        return ("rejected" if not problems else "violation"), problems, info

    # -- (i) names, order, one per data row
    names_A = [f["name"] for f in A.doc["flows"]]
    mine_A = [n for n in names_A if n.startswith(base + " - ")]
    if mine_A != expected_names:
        problems.append(("bulk row: flows are not one per data row, in data order, named <name> - <ID>",
                         {"expected": expected_names, "got": mine_A}))
    if B.ok:
        names_B = [f["name"] for f in B.doc["flows"]]
        if names_A != names_B:
            problems.append(("bulk and single rows give different flow names / order", {"bulk": names_A, "singles": names_B}))
        # -- (ii) exact equality up to invented uuids, whole container
        ca, cb = rename_uuids_by_first_occurrence(A.doc)[0], rename_uuids_by_first_occurrence(B.doc)[0]
        if ca != cb:
            problems.append(("bulk and single rows give different containers (canonical JSON up to invented uuids)",
                             {"first_difference": first_diff(ca, cb)}))
    fa = flows_by_name(A.doc)
    reqs, req_names = [], []
    for nm in expected_names:
        if len(fa.get(nm, [])) != 1:
            continue
        a1 = fa[nm][0]
        i = ids[expected_names.index(nm)]
        for label, other in (("single row", B), ("permuted single rows", Bp), ("generated alone", solos[i])):
            if not other.ok:
                continue
            fo = flows_by_name(other.doc).get(nm, [])
            if len(fo) != 1:
                problems.append((f"{label}: flow {nm!r} is missing or defined twice", {"names": [f['name'] for f in other.doc['flows']]}))
                continue
            d = first_diff(canon1(a1), canon1(fo[0]))
            if d:
                problems.append((f"instance {nm!r}: bulk differs from {label} (canonical JSON up to invented uuids)",
                                 {"first_difference": d, "order": perm if label.startswith("permuted") else None}))
            if want_bisim and label != "permuted single rows":
                reqs.append({"op": "flow.bisim", "a": canon_flow(a1), "b": canon_flow(fo[0]), "lvl": FULL})
                req_names.append((nm, label))
    tie_reqs = [(label, run, tie_req(run)) for label, run in (("A", A), ("B", B))]
    tie_reqs = [t for t in tie_reqs if t[2] is not None]
    answers = drv.results(reqs + [t[2] for t in tie_reqs]) if (reqs or tie_reqs) else []
    info["ties"] = [(label, tie_eval(run, ans)) for (label, run, _), ans in zip(tie_reqs, answers[len(reqs):])]
    if reqs:
        for (nm, label), ans in zip(req_names, answers[:len(reqs)]):
            if "__error__" in ans:
                raise core.Infra("driver: " + str(ans))
            if ans.get("equiv"):
                info["pairs"] += ans.get("pairs", 0)
            else:
                problems.append((f"instance {nm!r}: bulk and {label} behave differently",
                                 {"distinguishing_choice_sequence": ans.get("path"), "bulk_trace": ans.get("traceA"), "other_trace": ans.get("traceB")}))
    # -- (iv) arguments: the first message shows the data field and every text argument (positional / default)
    if case.get("expect_first"):
        for nm in expected_names:
            i = ids[expected_names.index(nm)]
            for f in fa.get(nm, [])[:1]:
                texts = [a.get("text") for nd in f["nodes"][:1] for a in nd.get("actions", [])[:1]]
                if texts != [case["expect_first"][i]]:
                    problems.append((f"instance {nm!r}: arguments are not bound positionally with defaults for blank ones (first message)",
                                     {"expected": case["expect_first"][i], "got": texts, "definitions": case["defs"], "arguments": case["given"]}))
    # -- (iii) permuted: same set of names
    if Bp.ok and B.ok and sorted(f["name"] for f in Bp.doc["flows"]) != sorted(f["name"] for f in B.doc["flows"]):
        problems.append(("permuting the single rows changes the set of flows", {"order": perm}))
    info["status"] = "ok"
    return ("ok" if not problems else "violation"), problems, info


# ------------------------------------------------------------------ tie B2: parse_all_flows names / order / first error


# The real code reports argument problems as CRITICAL records.  What they are about is read from ROBUST signals —
# the level, and the argument the message names (the first double-quoted word) —; the KIND of problem is told from
# the wording when the wording is recognised (several phrasings), and left open ("argProblem") when it is not, so
# that a reworded message can neither break the tie nor turn into a false alarm (`same_error`).
ARG_WORD = re.compile(r"\bargument", re.I)
DOUBLY_WORDS = re.compile(r"doubly|twice|already|duplicate|redefin|more than once|clash", re.I)
MISSING_WORDS = re.compile(r"required|not provided|missing|no value|mandatory|must be given|needs a value", re.I)
ROWID_WORDS = re.compile(r"data_row_id", re.I)
ARG_KINDS = ("argDoublyDefined", "argMissing")


def classify_arg_message(m: str, assume_argument: bool = False):
    """[kind, argument name] of a CRITICAL message about a template argument, else None"""
    q = m.split('"')
    if len(q) < 3 or not (assume_argument or ARG_WORD.search(q[0]) or ARG_WORD.search(m.replace(q[1], "", 1))):
        return None
    name, rest = q[1], " ".join(q[0::2])        # wording = the text outside the quoted values (a quoted context dump may say anything)
    d, miss = bool(DOUBLY_WORDS.search(rest)), bool(MISSING_WORDS.search(rest))
    kind = "argDoublyDefined" if d and not miss else "argMissing" if miss and not d else "argProblem"
    return [kind, name]


def same_error(real, model) -> bool:
    """do the real code's classified error and the model's agree?  An argument problem whose wording is not
    recognised agrees with either kind of argument problem about the same argument."""
    if real == model:
        return True
    return (isinstance(real, list) and isinstance(model, list) and len(real) == 2 and len(model) == 2
            and real[0] == "argProblem" and model[0] in ARG_KINDS and real[1] == model[1])


def real_class(run: Run):
    """first error of a modelled kind, as the model names it; else ok"""
    for m in run.criticals:
        c = classify_arg_message(m)
        if c is not None:
            return c
        if ROWID_WORDS.search(m) and "create_flow" in m and '"' not in m:    # names the row type and the column at fault
            return ["rowIdWithoutSheet"]
    if run.exc_type == "KeyError":
        return ["KeyError", (run.exc_args or [""])[0]]
    if run.exc is not None:
        return ["exception", run.exc]
    return None


def tie_req(run: Run):
    return None if run.model_input is None else dict(run.model_input, op="bulk.run")


def tie_eval(run: Run, ans):
    """None if model and real code agree on names / order / first error, else a detail dict"""
    if "__error__" in ans:
        raise core.Infra("driver: " + str(ans))
    rc = real_class(run)
    if "err" in ans:
        e = ans["err"]
        if e[0] in ("sheetNotFound", "templateNotFound"):
            ok = rc == ["KeyError", e[1]]
        elif e[0] == "rowNotFound":
            ok = rc == ["KeyError", e[2]]
        else:
            ok = same_error(rc, e)
        return None if ok else {"model": ans, "real": rc, "input": run.model_input}
    if rc is not None:
        return {"model": "ok", "real": rc, "input": run.model_input}
    names_model = [p[0] for p in ans["ok"]]
    names_real = [f["name"] for f in run.doc["flows"]] if run.doc else None
    if names_model != names_real:
        return {"model_names": names_model, "real_names": names_real, "input": run.model_input}
    return None


# ------------------------------------------------------------------ tie B1: mapArgs


def gen_mapargs(rng: random.Random):
    names = ["a", "b", "word", "sh", "a", "c"]
    n = rng.randint(0, 4)
    defs = []
    for _ in range(n):
        defs.append([rng.choice(names), rng.choice(["", "", "sheet", "str", "sheet"]), rng.choice(["", "", "d", "other", "nowhere"])])
    m = rng.choice([0, n, n, max(0, n - 1), n + 1, n + 2, rng.randint(0, 6)])
    args = [rng.choice(["", "", "x", "other", "other2", "nope", "y z"]) for _ in range(m)]
    ctx = []
    for k in rng.sample(["word", "count", "items", "b", "pair"], rng.randint(0, 3)):
        ctx.append([k, {"word": "alpha", "count": 2, "items": ["i1", "i2"], "b": "bee", "pair": {"a": "pa", "b": 3}}[k]])
    return {"defs": defs, "args": args, "ctx": ctx}


def mapargs_env():
    from rpft.parsers.creation.contentindexparser import ContentIndexParser

    sheets = {
        "content_index": rows_to_csv(IH, [{"type": "data_sheet", "sheet_name": "other"}, {"type": "data_sheet", "sheet_name": "other2"}]),
        "other": rows_to_csv(["ID", "label"], [{"ID": "o1", "label": "L1"}, {"ID": "o2", "label": "L2"}]),
        "other2": rows_to_csv(["ID", "label", "n:int"], [{"ID": "p1", "label": "M1", "n:int": "4"}]),
    }
    with LogCapture():
        parser = ContentIndexParser(mem_reader(sheets))
    return parser, registries(parser)["sheets"]


def real_mapargs(parser, case):
    from rpft.parsers.creation.contentindexrowmodel import TemplateArgument

    defs = [TemplateArgument(name=d[0], type=d[1], default_value=d[2]) for d in case["defs"]]
    ctx = {k: json.loads(json.dumps(v)) for k, v in case["ctx"]}
    out = {"warn": False}
    with LogCapture() as cap:
        try:
            res = parser.map_template_arguments_to_context(defs, list(case["args"]), ctx)
        except KeyError as e:
            res = None
            out["exc"] = ["KeyError", str(e.args[0])]
        except Exception as e:  # noqa: BLE001
            res = None
            out["exc"] = ["exception", f"{type(e).__name__}: {e}"]
    out["warn"] = bool(cap.warnings())      # the only warning of this function: surplus non-blank arguments
    for m in cap.criticals():
        c = classify_arg_message(m, assume_argument=True)   # every CRITICAL of this function is about an argument
        if c is not None:
            out["err"] = c
            break
    if "err" not in out and "exc" in out:
        out["err"] = ["sheetNotFound", out["exc"][1]] if out["exc"][0] == "KeyError" else out["exc"]
    if "err" not in out:
        canon = []
        for k, v in res.items():
            if isinstance(v, str):
                canon.append([k, v])
            elif hasattr(v, "items") and all(hasattr(x, "dict") for x in v.values()) and k not in dict(case["ctx"]):
                canon.append([k, {"__sheet__": [[rid, [[f, jsonable(x)] for f, x in dict(row).items()]] for rid, row in v.items()]}])
            else:
                canon.append([k, jsonable(v)])
        out["ok"] = canon
    out.pop("exc", None)
    return out


def model_mapargs_canon(ans):
    out = {"warn": ans.get("warn", False)}
    if "err" in ans:
        out["err"] = ans["err"]
    else:
        canon = []
        for k, v in ans["ok"]:
            if "text" in v:
                canon.append([k, v["text"]])
            elif "sheet" in v:
                canon.append([k, {"__sheet__": v["sheet"]}])
            else:
                canon.append([k, v["data"]])
        out["ok"] = canon
    return out


def mapargs_worker(args):
    seed, n = args
    rng = random.Random(seed)
    drv = core.Driver()
    parser, sheets = mapargs_env()
    cases = [gen_mapargs(rng) for _ in range(n)]
    reqs = [{"op": "bulk.mapargs", "sheets": sheets, "defs": c["defs"], "args": c["args"],
             "ctx": [[k, {"data": v}] for k, v in c["ctx"]]} for c in cases]
    answers = drv.results(reqs)
    ties, stats, keys = [], {}, []
    for c, ans in zip(cases, answers):
        if "__error__" in ans:
            raise core.Infra("driver: " + str(ans))
        real = real_mapargs(parser, c)
        model = model_mapargs_canon(ans)
        # strata are about the INPUTS generated (which problem the case holds), so they are named by the model's
        # verdict: the real code's wording must not decide whether the generator looks healthy
        k = "mapargs_" + (model["err"][0] if "err" in model else "ok")
        stats[k] = stats.get(k, 0) + 1
        if model["warn"]:
            stats["mapargs_warn_too_many"] = stats.get("mapargs_warn_too_many", 0) + 1
        keys.append(json.dumps(c, sort_keys=True))
        if "err" in real and "err" in model and real["warn"] == model["warn"] and same_error(real["err"], model["err"]):
            continue
        if real != model:
            ties.append({"input": c, "real": real, "model": model})
    return {"ties": ties[:10], "n_ties": len(ties), "stats": stats, "keys": keys}


# ------------------------------------------------------------------ workers


def case_worker(args):
    seed, n, kinds = args
    rng = random.Random(seed)
    drv = core.Driver()
    stats, bad, ties, keys = {}, [], [], []
    sample = None
    pairs = 0

    def bump(k, v=1):
        stats[k] = stats.get(k, 0) + v

    for _ in range(n):
        kind = rng.choice(kinds)
        case = gen_case(rng, kind)
        status, problems, info = check_case(case, drv, rng)
        bump("cases_" + kind)
        bump("outcome_" + status)
        bump(f"data_rows_{len(case['ids'])}")
        for f in case["features"]:
            bump("feat_" + f)
        pairs += info["pairs"]
        keys.append(json.dumps([case["base"], case["head"], case["bulk"], case["pre"], case["post"]], sort_keys=True))
        if sample is None and status == "ok" and len(case["ids"]) >= 2:
            sample = {"content_index_A": workbook(case, "A")["content_index"], "data": case["base"]["data"],
                      "tmpl": case["base"]["tmpl"], "flows": [f["name"] for f in info["A"].doc["flows"]]}
        if kind == "valid" and status == "rejected":
            bump("valid_but_rejected")
            if not problems:
                ties.append({"what": "generator: a case meant to be valid is rejected by the real code (both ways equally)",
                             "errors": [info["A"].exc, info["A"].errors[:2]], "generator_bug": True})
        for what, detail in problems:
            bad.append({"case": case, "what": what, "detail": detail, "perm": info["perm"]})
        # tie B2 on the three indexes
        bump("tie_run_skipped", 2 - len(info.get("ties", [])))
        for label, d in info.get("ties", []):
            if d is not None:
                ties.append({"what": f"model parseAllFlows vs real parse_all_flows ({label})", "detail": d})
            else:
                bump("tie_run_agree")
    return {"stats": stats, "bad": bad[:8], "n_bad": len(bad), "ties": ties[:8], "n_ties": len([t for t in ties if not t.get("generator_bug")]),
            "gen_bugs": len([t for t in ties if t.get("generator_bug")]), "keys": keys, "sample": sample, "pairs": pairs}


# ------------------------------------------------------------------ shrinking


def shrink_case(case, drv, perm):
    """drop data rows, then template rows, while some problem persists"""
    def failing(c, p):
        try:
            st, problems, _ = check_case(c, drv, None, perm=[i for i in p if i in c["ids"]] or None, want_bisim=False)
        except core.Infra:
            raise
        except Exception:  # noqa: BLE001
            return None
        return problems or None

    cur = case
    cur_p = failing(cur, perm)
    if not cur_p:
        return case, None
    import csv
    import io

    def read(text):
        rd = list(csv.reader(io.StringIO(text)))
        return rd[0], [dict(zip(rd[0], r)) for r in rd[1:]]

    # data rows
    changed = True
    while changed and len(cur["ids"]) > 1:
        changed = False
        for i in list(cur["ids"]):
            heads, rows = read(cur["base"]["data"])
            cand = dict(cur, ids=[x for x in cur["ids"] if x != i],
                        base=dict(cur["base"], data=rows_to_csv(heads, [r for r in rows if r["ID"] != i])))
            p = failing(cand, perm)
            if p:
                cur, cur_p, changed = cand, p, True
                break
    # template rows (keep block structure: drop rows that are not begin/end)
    changed = True
    while changed:
        changed = False
        heads, rows = read(cur["base"]["tmpl"])
        for k in range(len(rows) - 1, 0, -1):
            if rows[k]["type"] in ("begin_for", "end_for", "begin_block", "end_block"):
                continue
            cand_rows = rows[:k] + rows[k + 1:]
            cand = dict(cur, base=dict(cur["base"], tmpl=rows_to_csv(heads, cand_rows)))
            p = failing(cand, perm)
            if p:
                cur, cur_p, changed = cand, p, True
                break
    return cur, cur_p


# ------------------------------------------------------------------ oracle C, second stream: instances with and without data


def flow_texts(flow):
    return [a.get("text") for nd in flow.get("nodes", []) for a in nd.get("actions", []) if a.get("type") == "send_msg"]


def check_mixed(case: dict, drv, rng: random.Random | None = None, perm=None, solo=None, want_tie=True, light=False):
    """Oracle C on the real code for a case of harness/c12_mixed.py.  Returns (status, problems, info).
    light: the index against the generator's expectation only (no second runs) — used while shrinking."""
    insts = case["insts"]
    exp = M.expected_instances(case, insts)
    names = [n for n, _, _ in exp]
    if perm is None or sorted(perm) != list(range(len(insts))):
        perm = list(range(len(insts)))
        if rng is not None and len(insts) > 1:
            while perm == list(range(len(insts))):
                rng.shuffle(perm)
        else:
            perm.reverse()
    if solo is None:
        solo = list(names)
        if rng is not None and len(solo) > 3:
            solo = rng.sample(solo, 3)
        solo = solo[:8]
    R = run_index(M.workbook(case, insts))
    # (label, run, the instances it holds)
    others = [] if light else [
        ("the same index rows permuted", run_index(M.workbook(case, [insts[k] for k in perm])), names),
        ("one explicit row per instance, in the opposite order", run_index(M.workbook(case, [i for _, i, _ in reversed(exp)])), names)]
    for nm, inst, _ in exp:
        if nm in solo and not light:
            others.append((f"{nm!r} generated alone by a fresh parser", run_index(M.workbook(case, [inst])), [nm]))
    problems = []
    info = {"R": R, "perm": perm, "solo": solo, "pairs": 0, "ties": [], "status": None}

    def rej(r):
        return [r.exc, r.errors[:3]]

    if not R.ok:
        # valid by construction: every variable is read through `default` / `is defined`
        fine = [label for label, o, _ in others if o.ok]
        if fine:
            problems.append(("the index is rejected, but the same instances compile " + fine[0], {"index": rej(R)}))
        info["status"] = "rejected"
        return ("rejected" if not problems else "violation"), problems, info
    got_names = [f["name"] for f in R.doc["flows"]]
    if got_names != names:
        problems.append(("flows are not one per index row / data row, in index and data order, named <name>[ - <ID>]",
                         {"expected": names, "got": got_names}))
    fr = flows_by_name(R.doc)
    for k, (nm, inst, texts) in enumerate(exp):
        if len(fr.get(nm, [])) != 1:
            continue
        got = flow_texts(fr[nm][0])
        if got != texts:
            how = f"data row {inst['row_id']!r} of {inst['sheet']!r}" if inst["row_id"] else "NO data row"
            problems.append((f"instance {nm!r} ({inst['tmpl']} with {how}, arguments {inst['given']}) does not send what the "
                             "template evaluated with its own row and arguments says",
                             {"expected": texts, "got": got, "instances_generated_before": names[:k]}))
    for label, o, held in others:
        if not o.ok:
            problems.append((f"the index compiles but is rejected as: {label}", {"rejected": rej(o)}))
            continue
        fo = flows_by_name(o.doc)
        for nm in held:
            if len(fr.get(nm, [])) != 1:
                continue
            if len(fo.get(nm, [])) != 1:
                problems.append((f"flow {nm!r} is missing or defined twice in: {label}", {"names": [f["name"] for f in o.doc["flows"]]}))
                continue
            d = first_diff(canon1(fr[nm][0]), canon1(fo[nm][0]))
            if d:
                problems.append((f"instance {nm!r} differs between the index and: {label} (canonical JSON up to invented uuids)",
                                 {"first_difference": d, "order": perm if label.endswith("permuted") else None}))
    if want_tie and not light:
        tie_reqs = [(label, run, tie_req(run)) for label, run in (("mixed", R), ("mixed permuted", others[0][1]))]
        tie_reqs = [t for t in tie_reqs if t[2] is not None]
        answers = drv.results([t[2] for t in tie_reqs]) if tie_reqs else []
        info["ties"] = [(label, tie_eval(run, ans)) for (label, run, _), ans in zip(tie_reqs, answers)]
    info["status"] = "ok"
    return ("ok" if not problems else "violation"), problems, info


def shrink_mixed(case, drv):
    """drop index rows, then template rows, then data rows, while some problem persists (permutation: reversed)"""
    light = [True]

    def failing(c):
        try:
            _, problems, _ = check_mixed(c, drv, None, want_tie=False, light=light[0])
        except core.Infra:
            raise
        except Exception:  # noqa: BLE001
            return None
        return problems or None

    cur_p = failing(case)
    if not cur_p:
        light[0] = False        # the problem shows between runs only
        cur_p = failing(case)
    if not cur_p:
        return case, None
    cur = case
    for key, keep in (("insts", 1), ("trows", 1), ("data", 0), ("views", 0)):
        changed = True
        while changed and len(cur.get(key, [])) > keep:
            changed = False
            for k in range(len(cur[key]) - 1, -1, -1):
                if key == "trows" and cur[key][k]["tag"] == "first":
                    continue
                cand = dict(cur, **{key: cur[key][:k] + cur[key][k + 1:]})
                if key == "data":
                    gone = cur["data"][k]["ID"]
                    if any(i["row_id"] == gone for i in cur["insts"]):
                        continue
                    cand["ids"] = [i for i in cur["ids"] if i != gone]
                if key == "views" and any(i["sheet"] == cur["views"][k]["name"] for i in cur["insts"]):
                    continue
                p = failing(cand)
                if p:
                    cur, cur_p, changed = cand, p, True
                    break
    return cur, cur_p


def mixed_worker(args):
    seed, n = args
    rng = random.Random(seed)
    drv = core.Driver()
    stats, bad, ties, keys = {}, [], [], []
    sample = None

    def bump(k, v=1):
        stats[k] = stats.get(k, 0) + v

    for _ in range(n):
        case = M.gen_mixed(rng)
        status, problems, info = check_mixed(case, drv, rng)
        bump("mixed_cases")
        bump("mixed_outcome_" + status)
        bump("mixed_instances", len(M.expand(case, case["insts"])))
        for f in case["features"]:
            bump("mixed_feat_" + f)
        wb = M.workbook(case, case["insts"])
        keys.append(json.dumps(wb, sort_keys=True))
        if sample is None and status == "ok" and len(case["insts"]) >= 3:
            sample = {"content_index": wb["content_index"], "otmpl": wb["otmpl"], "oblk": wb["oblk"],
                      "flows": [[f["name"], flow_texts(f)] for f in info["R"].doc["flows"]]}
        if status == "rejected" and not problems:
            ties.append({"what": "generator: a mixed case meant to be valid is rejected by the real code (every way equally)",
                         "errors": [info["R"].exc, info["R"].errors[:2]], "generator_bug": True})
        for what, detail in problems:
            bad.append({"case": case, "what": what, "detail": detail, "perm": info["perm"], "solo": info["solo"]})
        for label, d in info.get("ties", []):
            if d is not None:
                ties.append({"what": f"model parseAllFlows vs real parse_all_flows ({label})", "detail": d})
            else:
                bump("tie_run_agree")
    return {"stats": stats, "bad": bad[:8], "n_bad": len(bad), "ties": ties[:8],
            "gen_bugs": len([t for t in ties if t.get("generator_bug")]), "keys": keys, "sample": sample}


# ------------------------------------------------------------------ known finding F-C12-a (blank row ID)


def known_blank_id(ck: core.Check):
    """deterministic: a data row whose ID is blank.  Property text: one flow per data row named
    `<name> - <ID>`, instantiated with that row.  Real code: a flow called `<name>` with an empty context."""
    def wb(blank_id):
        data = rows_to_csv(["ID", "word"], [{"ID": "r1", "word": "alpha"}, {"ID": blank_id, "word": "beta"}])
        tmpl = rows_to_csv(H, [{"row_id": "t1", "type": "send_message", "from": "start", "message_text": "hello {{extra}}"}])
        idx = rows_to_csv(IH, [{"type": "data_sheet", "sheet_name": "data"},
                               {"type": "template_definition", "sheet_name": "tmpl", "template_arguments": "extra;;dflt|"},
                               {"type": "create_flow", "sheet_name": "tmpl", "data_sheet": "data", "data_row_id": ""}])
        return {"content_index": idx, "data": data, "tmpl": tmpl}

    bad = run_index(wb(""))
    repaired = run_index(wb("r2"))
    ck.count("known_stream_blank_id")
    names_bad = [f["name"] for f in bad.doc["flows"]] if bad.doc else None
    names_rep = [f["name"] for f in repaired.doc["flows"]] if repaired.doc else None
    # (the pattern is the flow names; that a warning accompanies it is kept, its wording is not part of it)
    trigger_and_pattern = bad.exc is None and names_bad == ["tmpl - r1", "tmpl"] and bool(bad.warnings)
    counterfactual = repaired.ok and names_rep == ["tmpl - r1", "tmpl - r2"]
    if trigger_and_pattern and counterfactual and any(f["id"] == "F-C12-a" and f["status"] == "open" for f in ck.findings):
        ck.known("F-C12-a", "a data row with a blank ID is instantiated in bulk as a flow called `<name>` (not `<name> - `) with an EMPTY context: the data row is never looked up",
                 {"flows": names_bad, "warnings": bad.warnings})
        # the model has the same quirk (Props/C12.lean needs_nonblank_ids): tie on this input
        return
    if names_bad == ["tmpl - r1", "tmpl - "] and bad.ok:
        ck.notes.append("F-C12-a no longer reproduces (blank row ID is instantiated as `<name> - ` with its data row)")
        return
    if bad.exc is not None or not bad.ok:
        ck.notes.append(f"F-C12-a no longer reproduces: a blank row ID is now rejected ({bad.exc or bad.errors[:1]})")
        return
    ck.violation("data row with a blank ID: unexpected outcome (neither the recorded finding F-C12-a nor the stated behaviour)",
                 {"workbook": wb(""), "flows": names_bad, "warnings": bad.warnings, "errors": bad.errors})


def report_mixed(ck: core.Check, drv, bad: list, shrink: int = 3):
    """one violation per failing workbook (its first problem); the first few are shrunk"""
    seen = set()
    for b in bad:
        key = json.dumps(b["case"], sort_keys=True)
        if key in seen:
            continue
        seen.add(key)
        if len(seen) > 12:
            break
        case, what, detail, perm, solo = b["case"], b["what"], b["detail"], b["perm"], b["solo"]
        if len(seen) <= shrink:
            small, probs = shrink_mixed(case, drv)
            if probs:
                case, (what, detail), perm, solo = small, probs[0], None, None
        ck.violation(what, {"mixed_case": case, "order_of_permuted_rows": perm, "generated_alone": solo, "detail": detail,
                            "workbook": M.workbook(case, case["insts"])})


# ------------------------------------------------------------------ run


def run(ck: core.Check):
    ck.lean = core.lean_step("C12", thorough=(ck.tier == "thorough"))
    if not core.DRIVER_BIN.exists():
        raise core.Infra("driver not built:\n" + ck.lean.log[-2000:])
    quick = ck.tier == "quick"
    ck.rule = (
        "a case = one generated workbook (data sheet with inferred model: 0..5 rows — 0 = header only —, list / int / nested fields; the bulk row over "
        "the sheet itself or over a sheet derived by a `filter` operation keeping all / some / none of its rows (zero rows: zero flows, no error); template with loops over a data "
        "list, a data range and a `sheet` argument, include_if on data fields, inserted block with arguments, waits, groups; argument definitions "
        "positional / defaulted / required / sheet-typed, arguments given / blank / omitted / extra; optionally a plain flow starting an instance; "
        "leakage probes; argument and reference faults) compiled by the real code as bulk row, as single rows in data order, as single rows "
        "permuted, and one instance per fresh parser; distinct = distinct workbook text. Second stream: a template and a block whose cells read "
        "every variable through `default` / `is defined` (legal with and without a data row; declared arguments none or defaulted), an index of "
        "1..6 rows mixing bulk / single / data-less instances of the template and of the block, the template inserting the block with data, "
        "without, or both in either order; the data sheet holds 0..4 rows and `filter` operations derive sheets keeping all / some / none of "
        "them, bulk and single rows run over either (a bulk row over zero rows stands for no flow at all); each flow must send the texts the generator computes from its own row and arguments and equal the "
        "same instance in a permuted index, as explicit rows in the opposite order, and alone. "
        "mapArgs tie: generated (definitions, arguments, context)."
    )
    ck.assumptions = [
        "row IDs are non-blank (known finding F-C12-a) and pairwise distinct (OrderedDict keeps one row per ID: ofRows_keys_nodup)",
        "template arguments are strings (an argument cell holding a nested list is outside the model)",
        "the template compiler is a function of (template table, flow name, context): not proved, tested on every case by the bulk / single / permuted / alone comparison",
    ]
    ck.partial_gap = [
        "FlowParser itself is not modelled here (C02/C03 cover it): `compile` is an abstract parameter of the Lean model",
        "uuid threading between instances is compared on the real code only (canonical renaming per flow and per container)",
    ]
    drv = core.Driver()
    phases, t_phase = {}, [time.time()]     # wall seconds per stream → evidence

    def phase(name):
        phases[name] = round(time.time() - t_phase[0], 1)
        t_phase[0] = time.time()
        ck.extra["phase_seconds"] = phases

    n_total = 320 if quick else 3200
    nshards = par.NPROC * (1 if quick else 4)
    kinds = ["valid"] * 6 + ["probe"] * 3 + ["malformed"] * 1
    jobs = [(ck.rng.randrange(1 << 60), max(1, n_total // nshards), kinds) for _ in range(nshards)]
    total_pairs = 0
    gen_bugs = 0
    gen_bugs_mixed = 0
    bad_all = []
    for r in par.pmap(case_worker, jobs):
        for k, v in r["stats"].items():
            ck.count(k, int(v))
        total_pairs += r["pairs"]
        gen_bugs += r["gen_bugs"]
        for key in r["keys"]:
            ck.case(key, nontrivial=True)
        if r["sample"] and len(ck.samples) < 2:
            ck.samples.append(r["sample"])
        for t in r["ties"]:
            if t.get("generator_bug"):
                ck.notes.append("generator: " + json.dumps(t, ensure_ascii=False)[:300])
            else:
                ck.tie_break(t["what"], t["detail"])
        bad_all += r["bad"]
    for b in bad_all[:3]:
        small, probs = shrink_case(b["case"], drv, b["perm"])
        what, detail = (probs[0] if probs else (b["what"], b["detail"]))
        ck.violation(what, {"case": small, "order_of_permuted_rows": b["perm"], "detail": detail,
                            "workbook_A": workbook(small, "A"), "workbook_B": workbook(small, "B")})
    for b in bad_all[3:20]:
        ck.violation(b["what"], {"case": b["case"], "order_of_permuted_rows": b["perm"], "detail": b["detail"]})
    ck.extra["certificate_pairs_validated"] = total_pairs
    phase("bulk_vs_single_stream")

    # second stream: templates legal with and without a data row, bulk / single / data-less instances mixed
    n_mixed = 80 if quick else 800
    jobs = [(ck.rng.randrange(1 << 60), max(1, n_mixed // nshards)) for _ in range(nshards)]
    bad_mixed = []
    for r in par.pmap(mixed_worker, jobs):
        for k, v in r["stats"].items():
            ck.count(k, int(v))
        gen_bugs_mixed += r["gen_bugs"]
        for key in r["keys"]:
            ck.case(key, nontrivial=True)
        if r["sample"] and not any("otmpl" in x for x in ck.samples):
            ck.samples.append(r["sample"])
        for t in r["ties"]:
            if t.get("generator_bug"):
                ck.notes.append("generator: " + json.dumps(t, ensure_ascii=False)[:300])
            else:
                ck.tie_break(t["what"], t["detail"])
        bad_mixed += r["bad"]
    phase("mixed_stream")
    report_mixed(ck, drv, bad_mixed)
    phase("mixed_shrink")

    # tie B1: mapArgs
    n_map = 4000 if quick else 60000
    jobs = [(ck.rng.randrange(1 << 60), n_map // par.NPROC) for _ in range(par.NPROC)]
    for r in par.pmap(mapargs_worker, jobs):
        for k, v in r["stats"].items():
            ck.count(k, int(v))
        for key in r["keys"]:
            ck.case(key, nontrivial=True)
        for t in r["ties"]:
            ck.tie_break("model mapArgs vs real map_template_arguments_to_context", t)

    phase("mapargs_tie")
    # the negative witness of Props/C12.lean replayed on the real code + known finding stream
    known_blank_id(ck)

    # obligation broken → search harder with the direct oracle (thorough-size stream)
    if (ck.tie_breaks or not ck.lean.ok) and not ck.violations:
        jobs = [(ck.rng.randrange(1 << 60), 60, kinds) for _ in range(par.NPROC * 2)]
        for r in par.pmap(case_worker, jobs):
            for b in r["bad"][:2]:
                ck.violation(b["what"], {"case": b["case"], "order_of_permuted_rows": b["perm"], "detail": b["detail"]})
        jobs = [(ck.rng.randrange(1 << 60), 30) for _ in range(par.NPROC * 2)]
        for r in par.pmap(mixed_worker, jobs):
            report_mixed(ck, drv, r["bad"][:2], shrink=0)
        ck.search_ran = True

    if ck.violations or ck.tie_breaks or not ck.lean.ok:
        # a failing input is in hand, or the correspondence broke (the classification of the real code's
        # messages may no longer apply): the stratum self-checks below are about the unchanged tree
        return
    if gen_bugs > max(3, ck.strata.get("cases_valid", 0) // 20):
        raise core.Infra(f"generator: {gen_bugs} cases meant to be valid are rejected by the real code")
    if gen_bugs_mixed > 2:
        raise core.Infra(f"generator: {gen_bugs_mixed} mixed cases meant to be valid are rejected by the real code")
    need = ["mixed_outcome_ok", "mixed_feat_dataless_after_data", "mixed_feat_data_after_dataless", "mixed_feat_tmpl_args_none",
            "mixed_feat_tmpl_args_defaulted", "mixed_feat_block_args_none", "mixed_feat_inst_bulk", "mixed_feat_inst_single",
            "mixed_feat_inst_dataless", "mixed_feat_insert_by_ref", "mixed_feat_insert_data_then_dataless",
            "mixed_feat_insert_dataless_then_data", "mixed_feat_include_if_is_defined", "mixed_feat_cell_is_defined",
            "feat_loop_items", "feat_loop_sheet_arg", "feat_include_if_data", "feat_insert_as_block", "feat_arg_sheet",
            "feat_arg_defaulted", "feat_arg_positional", "feat_arg_extra_blank", "feat_nested_field", "outcome_ok", "outcome_rejected",
            "feat_probe_loop_var", "mapargs_ok", "mapargs_argDoublyDefined", "mapargs_argMissing", "mapargs_sheetNotFound",
            "mapargs_warn_too_many", "tie_run_agree", "data_rows_1", "data_rows_5",
            "feat_bulk_rows_0", "feat_bulk_rows_1", "feat_bulk_rows_many", "feat_empty_header_only", "feat_empty_by_filter",
            "feat_bulk_over_filter_view", "mixed_feat_bulk_rows_0", "mixed_feat_bulk_rows_many",
            "mixed_feat_empty_header_only", "mixed_feat_empty_by_filter", "mixed_feat_bulk_over_filter_view"]
    for s in need:
        if ck.strata.get(s, 0) < 3:
            raise core.Infra(f"generator stratum {s} under-represented: {ck.strata.get(s, 0)}")
    for s in ("mixed_feat_bulk_rows_1", "mixed_feat_single_over_filter_view"):      # sparse in the quick tier (80 workbooks)
        if ck.strata.get(s, 0) < 1:
            raise core.Infra(f"generator stratum {s} empty")


def replay(path):
    rec = json.load(open(path))
    print(json.dumps({k: v for k, v in rec.items() if k != "replay"}, indent=1, ensure_ascii=False)[:3000])
    mixed = rec.get("replay", {}).get("mixed_case")
    if mixed:
        drv = core.Driver()
        status, problems, info = check_mixed(mixed, drv, None, perm=rec["replay"].get("order_of_permuted_rows"),
                                             solo=rec["replay"].get("generated_alone"))
        print("status:", status)
        for what, detail in problems:
            print("-", what)
            print("  ", json.dumps(detail, ensure_ascii=False, default=str)[:1500])
        wb = M.workbook(mixed, mixed["insts"])
        for n in ("content_index", "data", "otmpl", "oblk"):
            print(f"{n}:\n" + wb[n])
        return 1 if problems else 0
    case = rec.get("replay", {}).get("case")
    if case:
        drv = core.Driver()
        status, problems, info = check_case(case, drv, None, perm=rec["replay"].get("order_of_permuted_rows"))
        print("status:", status)
        for what, detail in problems:
            print("-", what)
            print("  ", json.dumps(detail, ensure_ascii=False, default=str)[:1500])
        print("content_index A:\n" + workbook(case, "A")["content_index"])
        print("content_index B:\n" + workbook(case, "B")["content_index"])
        for n in ("data", "tmpl"):
            print(f"{n}:\n" + case["base"][n])
        return 1 if problems else 0
    return 0
