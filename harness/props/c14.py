"""C14 — workbook format does not matter: CSV, XLSX and JSON inputs compile identically (PARTIAL).

A  proof step: Rpft.Props.C14 (json_roundtrip, xlsx_sanitize_id, sanitize_idem, csv_read_id,
   readers_agree_on_blank_rows, the *_general round trips, formats_agree, convert_then_compile, c14_partial + negative witnesses) over the hand model
   Rpft/Sheets.lean of `_sanitize`, `to_json`/`table.dict`, `JSONSheetReader`/`table.dict = …`
   and tablib's CSV record loop; and the CSV BYTE FORMAT (Rpft/Csv.lean: csv.writer dialect,
   newline='' line iteration, the csv.reader automaton with its field limit, UTF-8) with
   csv_read_write / writeCsv_injective / csv_reader_grammar / csv_read_write_dialect /
   csv_file_roundtrip for ALL grids.
B  tie: (1) every generated sheet through the model (`sheets.all`) vs what the REAL readers
   return for the three formats and vs the JSON the real `convert_to_json` writes;
   (2) `_sanitize`, `table.dict`, `JSONSheetReader` called directly on generated grids with
   `None`s, trailing/inner `None` headers, typed cells, over-wide rows, ragged JSON rows;
   (3) the kernel-checked witnesses of Props/C14 replayed on the real code;
   (4) CSV byte format: model writer vs real csv.writer text (4 dialects) and model reader vs real
   csv.reader on the real writer's text — exhaustively for small grids over {a , " CR LF space é}
   and for random larger ones; model reader + line iterator vs real on EVERY text of length ≤ 5
   (quick) / ≤ 6 (thorough) over that alphabet and on hand-made unusual texts; model load_csv vs
   the project's load_csv on file bytes (tablib exports, harness-written files, mutated and
   non-UTF-8 files); UTF-8 codec; the field limit at 131072 / 131073; the dialect constants;
   (5) JSON: model encodeString vs json.dumps(ensure_ascii=False) and model scanStr vs
   json.decoder.scanstring (exhaustive short inputs + random escape sequences); model json.loads
   vs real on every text of length ≤ 5 / ≤ 6 over { } [ ] " : , space a LF; model to_json text ==
   the real convert output and model JSONSheetReader == real reader on those bytes (every
   workbook of the read stream) and on foreign-style / damaged JSON files.
C  direct oracle: workbooks written by the harness as CSV folder (Python `csv`), XLSX
   (openpyxl, text cells) and JSON (real `convert_to_json` from the CSV AND from the XLSX) must
   be read by `create_sheet_reader(fmt, path).sheets` into exactly what was written, cell by
   cell, all-empty rows omitted (by every reader alike: F-C14-a, fixed — such rows are a regular
   class of the generators); compilable workbooks must compile with the real `create_flows` to the same flows (up
   to invented UUIDs) from all formats, and convert→compile = compile.
"""
from __future__ import annotations

import csv
import io
import json
import os
import random
import shutil
import subprocess
import sys
import tempfile

from .. import core, par

MANIFEST = dict(
    text="Proof (partial): Lean theorems json_roundtrip (to_json then JSONSheetReader is the identity on rectangular sheets with distinct headers and at least one row), xlsx_sanitize_id / xlsx_sanitize_grid (XLSXSheetReader._sanitize is the identity on what openpyxl delivers for rectangular text sheets with non-empty headers and no all-empty row), sanitize_idem (for every grid), csv_read_id (tablib's CSV record loop), and — the CSV byte format being inside the model (Python csv.writer with the excel dialect tablib uses, text-file line iteration with newline='', the csv.reader state machine with its 131072-character field limit, UTF-8) — csv_read_write (reader(writer(records)) = records for ALL lists of records: any shape, empty records, cells with commas, quotes, CR, LF, any Unicode, up to the field limit), writeCsv_injective (unconditional), csv_reader_grammar (the reader is correct on every text of the CSV grammar: CRLF or LF records, each field quoted-with-doubled-quotes or plain), csv_read_write_dialect (LF / QUOTE_ALL writers; the LF+QUOTE_MINIMAL writer of CPython 3.12 needs CR-free cells: lf_minimal_loses_cr), readers_agree_on_blank_rows (for every rectangular sheet with distinct non-empty headers and a row, the CSV, XLSX and JSON readers all deliver the sheet without its all-empty rows: omit_empty_rows in load_csv / JSONSheetReader drops exactly the rows _sanitize drops, xlsx_rows_eq_omitEmptyRows for every grid), the round trips in general form (csv_reader_general, json_reader_general, xlsx_sanitize_general, csv_file_roundtrip_general, json_file_roundtrip_general, convert_then_read_general: what is read is the sheet with its all-empty rows removed) with the identity as corollary exactly when there is no all-empty row (omitEmpty_eq_self_iff), csv_file_roundtrip (tablib export -> UTF-8 bytes -> load_csv is the identity on rectangular sheets with a header and no all-empty row), csv_read_write_iff / csv_unfit_raises / csv_reader_total / loadCsv_errors (the guard is exact; on every text the only failures are the field limit, non-UTF-8 bytes and tablib's InvalidDimensions), and — the JSON byte format being inside the model too (json.dumps(ensure_ascii=False, indent=2) and json.loads for strings / arrays / objects, the book value of to_json, text-mode reading, the JSONSheetReader loop) — json_string_roundtrip (string literals, every string), json_document_roundtrip (loads(dumps(v)) = v for every value with distinct keys), json_file_roundtrip (to_json -> UTF-8 bytes -> JSONSheetReader is the identity on workbooks of rectangular sheets with distinct headers, at least one row, no all-empty row and distinct names), formats_agree / c14_partial (the three readers deliver the same sheets: proved for the CSV and JSON bytes, relative to the XLSX byte format being faithful) and convert_then_read / convert_then_compile (convert followed by compilation = compiling the source, for any compiler that is a function of the sheets), each hypothesis shown necessary by a kernel-checked witness that is replayed on the real code. The model of the csv library is tied to the real csv module on every run (exhaustive small grids and texts over {a , \" CR LF space e-acute}, random larger grids, hand-made unusual texts, mutated and non-UTF-8 files through the project's load_csv, the field limit at its real value), the model of the json library to json.dumps / json.decoder.scanstring / json.loads / the real convert output and JSON reader (exhaustive short strings and texts, random escape sequences, every real convert output of the run byte for byte, foreign-style and damaged JSON files). The quantifier over cell contents for the XLSX byte format (openpyxl / tablib) is carried by the harness: generated workbooks (1-6 sheets, 1-15 rows, unique non-empty headers, empty cells, all-empty rows at the start / in the middle / at the end / several in a row and rows of blanks, commas, quotes, newlines, | ; \\, leading = and ', numeric- and boolean-looking text, leading/trailing blanks, non-ASCII and astral characters) are written as CSV folder, XLSX and JSON (real convert_to_json from both), read back by the real readers and compared cell by cell with what was written and with the model; compilable workbooks are compiled by the real create_flows from every format and compared up to invented UUIDs.",
    ref="§5 C14",
    note="PARTIAL: the XLSX byte format is library code (openpyxl zip + XML, tablib xlsx import) and is exercised, not modelled; the CSV byte format (csv.writer / csv.reader / line iteration / UTF-8) and the JSON byte format (json.dumps with indent / json.loads restricted to strings, arrays and objects / text-mode reading) ARE modelled, proved to round-trip (all grids / all workbooks in the domain) and tied to the real csv and json modules; the repo's own post-processing is modelled and proved. Trusts: Lean kernel (axioms audited each run), that the Lean models of CPython's _csv.c, _json.c / json.encoder and text-file reading are faithful beyond the exhaustively and randomly compared inputs (the interpreter's recursion limit for deeply nested JSON is not modelled), harness writers (openpyxl text cells) and Driver JSON codec. Known findings: F-C14-b (header-only sheet loses its headers through convert: JSON compile crashes). (F-C14-a, all-empty row kept by CSV/JSON and dropped by XLSX, and F-C14-c, CR/CRLF in CSV cells, were fixed in /repo: all-empty rows are a regular generator class now, omitted by every reader.)",
    technique="Lean 4 proof of the readers' post-processing (induction over the row loops) and of the CSV and JSON byte formats (csv.writer / csv.reader automaton: invariant over records, fields and characters of a machine fusing the line iterator with the reader; json.dumps / json.loads: mutual structural induction over values, elements and members with a fuel-indexed recursive-descent reader) + exhaustive/random differential tie of those models against the real csv and json modules + generated three-format differential run on the real readers and compiler",
)

# --------------------------------------------------------------------------- cell / header pools

WORDS = ["yes", "no", "hello", "Alpha", "beta gamma", "x", "flow", "send_message", "start", "row1", "A1", "ok"]
SPECIAL = [
    "a,b", ",", "\"", "q\"r", "\"quoted\"", "a\"\"b", "'", "'q", "'007", "it's",
    "line one\nline two", "\n", "x\n", "\nx", "a\n\nb", "tab\there", "\t",
    "a|b", "a;b", "a\\b", "\\", "|", ";", "a\\;b|c", ";;", "\\|",
    "=1+1", "=SUM(A1:A2)", "=", "+1", "-1", "@x", "@fields.name",
    "007", "1.50", "1.0", "1e5", "1E5", "0", "-0", "00", "1,000", "0.1", ".5", "5.", "12345678901234567890", "1_000",
    "TRUE", "FALSE", "True", "False", "true", "None", "null", "NULL", "nan", "NaN", "inf", "N/A", "#N/A",
    "2020-01-31", "31/01/2020", "1/2/03", "09:30", "2020-01-31T09:30:00Z", "Jan 5",
    " lead", "trail ", " both ", "  ", " ", "a  b", "\u00a0", "a\u00a0b", "\u2028", "a\u0085b", "\u200b", "mid\ufeffbom",
    "é", "Ünïcode", "日本語", "العربية", "עברית", "\U0001F600", "a\U0001F600b", "\U0001F468\u200d\U0001F469\u200d\U0001F467", "\U00010000", "\U0010FFFD", "é", "ß", "İi", "ǅ",
    "{{x}}", "{@y@}", "{", "}", "<b>&amp;</b>", "<", "&", "]]>", "<?xml?>", "&#13;", "_x000D_", "_x0041_", "%s", "%", "#", "\u007f",
]
HEADER_POOL = [
    "row_id", "type", "from", "message_text", "ID", "name", "count:int", "items.1", "items.2", "a.b.c", "x:float=1",
    "Column A", "col,comma", "col\"quote", "col;semi", "col|pipe", "col\\back", "1", "007", "TRUE", "=h", "'h", " h ", "h ",
    "héader", "日本", "\U0001F600", "multi\nline", "tab\th", "UPPER", "upper", "_", "-", "a b c", "{{h}}", "&h", "<h>",
]
NAME_ALPHA = "abcdefghijklmnopqrstuvwxyzABCDEFGHIJKLMNOPQRSTUVWXYZ0123456789 _-.éß日本ç\U0001F600"
# text that is NOT in a Unicode normal form (a sheet name, a header and a cell are opaque strings in every format: no
# reader or writer may compose, decompose or fold them).  Written with escapes on purpose: editors normalise.
#   not NFC:  decomposed accents (base + combining mark), several marks in non-canonical order, conjoining Hangul jamo,
#             singleton code points whose canonical form is another character (ANGSTROM SIGN, OHM SIGN, GREEK QUESTION
#             MARK, EN QUAD, deprecated combining marks, CJK compatibility ideographs, Devanagari composition exclusions)
#   NFC but not NFKC: compatibility characters (ligatures, fullwidth, superscripts, circled digits, ideographic space)
#   NFC but not NFD: the composed twins of the above (so that both spellings of one word meet in one workbook)
NOT_NFC = [
    "cafe\u0301", "e\u0301", "A\u030a", "n\u0303o", "u\u0308ber", "E\u0301cole", "a\u0300 la", "o\u0302\u0323", "o\u0323\u0302", "q\u0307\u0323", "s\u0307\u0323",
    "\u1112\u1161\u11ab", "\u1100\u1161", "\u212b", "\u2126", "\u037e", "a\u037eb", "\u2000", "a\u2000b", "\u0340", "a\u0344", "\u0958", "\u0f73", "\uf900",
    "\u2329x\u232a", "\u017f\u0307", "\u0041\u030a\u0301", "\u03b1\u0313\u0301", "\ufb31", "\ufb2f", "\U0001d15e", "\U0002f800",
]
NOT_NFKC = ["\ufb01", "\uff21\uff11", "x\u00b2", "\u2460", "\u3000", "a\u3000b", "\u00a8", "\ufdfa", "\u2f00", "\u01c4", "\u0132", "\u2025", "\u210c", "\u33a5", "\u2122", "\u00bd", "\u2167", "\u1e9b\u0323"]
COMPOSED_TWINS = ["caf\u00e9", "\u00c5", "\u00f1o", "\u00fcber", "\u1ed9", "\ud55c", "\uac00", "\u03a9x\u00e9", "\u1e69"]
# fragments a sheet NAME may contain (a name is also a file name and an XLSX tab title: none of \\ / * ? : [ ], no blank edge)
NAME_NOT_NORMAL = [x for x in NOT_NFC + NOT_NFKC if not any(c in x for c in "\u2000\u3000")] + ["a\u2000b", "a\u3000b"]


def _is_nf(form: str, s: str) -> bool:
    import unicodedata

    return unicodedata.normalize(form, s) == s


def norm_key(s: str) -> str:
    """what two names share when they differ only in Unicode normalisation and case"""
    import unicodedata

    return unicodedata.normalize("NFKC", unicodedata.normalize("NFKC", s).casefold())
ILLEGAL_XML = set(range(0, 9)) | {11, 12} | set(range(14, 32)) | {0xFFFE, 0xFFFF}
HEADER_NOT_NORMAL = ["he\u0301ader", "nume\u0301ro", "\u212bngstr\u00f6m", "\u2126", "col\u037e", "\u1112\u1161\u11ab", "\ufb01eld", "\uff21", "m\u00b2", "A\u030a", "\u00c5"]


def gen_not_normal(rng: random.Random) -> str:
    """a short text that is not NFC- (mostly) or not NFKC-stable, alone or inside ordinary text"""
    r = rng.random()
    x = rng.choice(NOT_NFC) if r < 0.65 else rng.choice(NOT_NFKC) if r < 0.85 else rng.choice(COMPOSED_TWINS) + " " + rng.choice(NOT_NFC)
    q = rng.random()
    if q < 0.4:
        return x
    if q < 0.6:
        return rng.choice(WORDS) + " " + x
    if q < 0.8:
        return x + rng.choice([" ", ",", "\n", "_", ""]) + rng.choice(WORDS)
    return x + rng.choice(NOT_NFC + COMPOSED_TWINS)


def gen_cell(rng: random.Random) -> str:
    r = rng.random()
    if r < 0.22:
        return ""
    if r < 0.42:
        return rng.choice(WORDS)
    if r < 0.45:
        return gen_not_normal(rng)
    if r < 0.85:
        return rng.choice(SPECIAL)
    if r < 0.95:
        return rng.choice(SPECIAL) + rng.choice([" ", "", ",", "\n", "x"]) + rng.choice(SPECIAL)
    n = rng.randint(50, 400)
    return "".join(rng.choice(["a", " ", ",", "\"", "\n", "é", "\U0001F600", ";", "|", "0"]) for _ in range(n))


def gen_name(rng: random.Random, taken: set) -> str:
    while True:
        k = rng.randint(1, 14)
        s = "".join(rng.choice(NAME_ALPHA) for _ in range(k)).strip(" .")
        if rng.random() < 0.12:
            # names that LOOK structured (a title and a tab, a file with an extension, a path-like name): a sheet name
            # is an opaque string in every format
            s = rng.choice(["survey - part 1", "x - " + s, s + " - copy", "data.v2", s + ".csv", "a - b - c", "2024-01 - plan", "tab (1)", "new_" + s])
            s = s.strip(" .")
        elif rng.random() < 0.18:
            # names that are not in a Unicode normal form (typed on another platform, pasted from a document): opaque too
            x = rng.choice(NAME_NOT_NORMAL)
            i = rng.choice([0, len(s), rng.randint(0, len(s))])
            s = (s[:i] + x + s[i:])[:31].strip(" .") if rng.random() < 0.85 else x
        # two names of one workbook never differ ONLY in case or normalisation (some file systems would merge them)
        if s and s.lower() not in taken and s.casefold() not in taken and norm_key(s) not in taken:
            taken.add(s.lower())
            taken.add(s.casefold())
            taken.add(norm_key(s))
            return s


def gen_sheet(rng: random.Random, name: str, min_rows=1) -> dict:
    ncol = rng.choice([1, 1, 2, 3, 4, 5, 8, 12]) if rng.random() < 0.9 else rng.randint(13, 30)
    headers = []
    seen = set()
    while len(headers) < ncol:
        q = rng.random()
        h = rng.choice(HEADER_POOL) if q < 0.74 else rng.choice(HEADER_NOT_NORMAL) if q < 0.8 else "h%d" % rng.randint(0, 999)
        if h not in seen:
            seen.add(h)
            headers.append(h)
    nrows = rng.randint(min_rows, 15)
    rows = []
    for _ in range(nrows):
        while True:
            row = [gen_cell(rng) for _ in range(ncol)]
            if any(row):        # all-empty rows are put in on purpose by with_blank_rows (their own strata)
                break
        rows.append(row)
    return {"name": name, "headers": headers, "rows": rows}


BLANK_ROW_KINDS = ("start", "middle", "end", "run", "scattered", "around_every_row")


def with_blank_rows(rng: random.Random, s: dict):
    """the sheet with all-empty rows put in — at the start / in the middle / at the end, one or several in a row, around
    every row — and sometimes a row that only LOOKS empty (cells of blanks: not the empty string, every reader keeps
    it).  Every reader omits the all-empty rows (`_sanitize` for XLSX, `omit_empty_rows` for CSV and JSON; F-C14-a,
    fixed), so what is read is `omit_blank_rows` of this.  Only for sheets that keep a row (a sheet left with headers
    only is F-C14-b's trigger).  Returns (sheet, strata)."""
    n = len(s["headers"])
    rows = [list(r) for r in s["rows"]]
    if n == 0 or not any(any(r) for r in rows):
        return s, []
    kind = rng.choice(BLANK_ROW_KINDS)
    if kind == "middle" and len(rows) < 2:
        kind = "end"

    def ins(i, k=1):
        rows[i:i] = [[""] * n for _ in range(k)]

    if kind == "start":
        ins(0)
    elif kind == "middle":
        ins(rng.randint(1, len(rows) - 1))
    elif kind == "end":
        ins(len(rows))
    elif kind == "run":
        ins(rng.randint(0, len(rows)), rng.randint(2, 4))
    elif kind == "scattered":
        for _ in range(rng.randint(2, 4)):
            ins(rng.randint(0, len(rows)))
    else:
        new = [[""] * n]
        for r in rows:
            new += [r, [""] * n]
        rows = new
    tags = ["blank_rows:" + kind]
    if rng.random() < 0.2:
        w = [""] * n
        if rng.random() < 0.5:
            w = [rng.choice([" ", "  "]) for _ in range(n)]
        else:
            w[rng.randrange(n)] = rng.choice([" ", "  "])
        rows.insert(rng.randint(0, len(rows)), w)
        tags.append("blank_rows:whitespace_only_row(kept by every reader)")
    return {**s, "rows": rows}, tags


def omit_blank_rows(sheets: list[dict]) -> list[dict]:
    """what every reader delivers for these sheets: rows whose cells are all "" are omitted"""
    return [{**s, "rows": [r for r in s["rows"] if any(c != "" for c in r)]} for s in sheets]


def sprinkle_blank_rows(rng: random.Random, sheets: list[dict], p_book: float, p_sheet: float):
    """all-empty rows in some sheets of some workbooks; returns (sheets, strata)"""
    if rng.random() >= p_book:
        return sheets, []
    out, tags = [], []
    forced = rng.randrange(len(sheets)) if sheets else -1
    for i, s in enumerate(sheets):
        if i == forced or rng.random() < p_sheet:
            s, t = with_blank_rows(rng, s)
            tags += t
        out.append(s)
    return out, tags


def blank_row_strata(sheets: list[dict]) -> list[str]:
    """where the all-empty rows of these sheets are (by inspection), and in what kind of sheet"""
    tags = []
    for s in sheets:
        e = [not any(c != "" for c in r) for r in s["rows"]]
        if not any(e):
            continue
        kind = ("index_sheet" if s["name"] == "content_index" else "flow_sheet" if {"row_id", "type", "from"} <= set(s["headers"]) else "data_or_other_sheet")
        tags.append("blank_rows_in:" + kind)
        if e[0]:
            tags.append("blank_rows:first_row")
        if e[-1]:
            tags.append("blank_rows:last_row")
        if any(e[i] and not all(e[:i]) and not all(e[i:]) for i in range(len(e))):
            tags.append("blank_rows:between_rows")
        if any(a and b for a, b in zip(e, e[1:])):
            tags.append("blank_rows:several_in_a_row")
        if any(r and not any(c.strip(" ") for c in r) and any(c != "" for c in r) for r in s["rows"]):
            tags.append("blank_rows:whitespace_only_row(kept by every reader)")
    return tags


def gen_workbook(rng: random.Random) -> list[dict]:
    taken: set = set()
    return [gen_sheet(rng, gen_name(rng, taken)) for _ in range(rng.randint(1, 6))]


# --------------------------------------------------------------------------- writers (harness side)


def write_csv_folder(folder: str, sheets: list[dict], style: dict):
    os.makedirs(folder)
    for s in sheets:
        with open(os.path.join(folder, s["name"] + ".csv"), "w", newline="", encoding="utf-8") as f:
            w = csv.writer(f, lineterminator=style.get("lt", "\r\n"),
                           quoting=csv.QUOTE_ALL if style.get("quote_all") else csv.QUOTE_MINIMAL)
            w.writerow(s["headers"])
            for r in s["rows"]:
                w.writerow(r)


def write_xlsx(path: str, sheets: list[dict], style: dict, typed=None):
    """every cell is written as TEXT (data_type 's', number format '@'); an empty cell is either
    an empty text cell or no cell at all (both are what a spreadsheet program may store)."""
    import openpyxl

    wb = openpyxl.Workbook()
    wb.remove(wb.active)
    for s in sheets:
        ws = wb.create_sheet(s["name"])
        for i, r in enumerate([s["headers"]] + s["rows"], 1):
            for j, v in enumerate(r, 1):
                if typed is not None and not isinstance(v, str):
                    if v is not None:
                        ws.cell(row=i, column=j).value = v
                    continue
                if v == "" and style.get("skip_empty"):
                    continue
                c = ws.cell(row=i, column=j)
                c.value = v
                c.data_type = "s"
                c.number_format = "@"
        # cells that exist but are empty beyond the table (formatted-but-blank columns / rows, as
        # spreadsheet programs leave them): same content, more `None`s for `_sanitize`
        n, h = len(s["headers"]), 1 + len(s["rows"])
        for i in range(1, h + 1 + style.get("pad_rows", 0)):
            for j in range(1, n + 1 + style.get("pad_cols", 0)):
                if i > h or j > n:
                    c = ws.cell(row=i, column=j)
                    c.value = ""
                    c.data_type = "s"
    wb.save(path)


def write_json_via_convert(src: str, fmt: str, out: str) -> str:
    """exactly what `rpft convert` does (cli.convert_to_json), without importing rpft.cli"""
    from rpft import converters

    content = converters.convert_to_json(src, fmt)
    with open(out, "wb") as export:
        export.write(bytes(content, "utf-8"))
    return content


# --------------------------------------------------------------------------- readers (real code)


def read_sheets(fmt: str, path: str):
    """create_sheet_reader(fmt, path).sheets → {name: {"headers": list|None, "rows": [[...]]}} or
    {"__exc__": class name}"""
    from rpft import converters

    try:
        reader = converters.create_sheet_reader(fmt, path)
        out = {}
        for name, sheet in reader.sheets.items():
            t = sheet.table
            if sheet.name != name:
                return {"__exc__": f"sheet registered as {name!r} is named {sheet.name!r}"}
            out[name] = {"headers": None if t.headers is None else list(t.headers),
                         "rows": [list(t[i]) for i in range(t.height)]}
        return out
    except Exception as e:  # noqa: BLE001
        return {"__exc__": f"{type(e).__name__}: {e}"[:300]}


def expect_of(sheets: list[dict]) -> dict:
    return {s["name"]: {"headers": list(s["headers"]), "rows": [list(r) for r in s["rows"]]} for s in sheets}


def all_str(got: dict) -> bool:
    for t in got.values():
        if t["headers"] is not None and not all(type(h) is str for h in t["headers"]):
            return False
        if not all(type(c) is str for r in t["rows"] for c in r):
            return False
    return True


def first_diff(exp: dict, got: dict):
    """smallest description of where two {name: table} differ"""
    if "__exc__" in got:
        return {"exception": got["__exc__"]}
    if set(exp) != set(got):
        return {"sheet_names_written": sorted(exp), "sheet_names_read": sorted(got)}
    for n in exp:
        e, g = exp[n], got[n]
        if e["headers"] != g["headers"]:
            return {"sheet": n, "headers_written": e["headers"], "headers_read": g["headers"]}
        if len(e["rows"]) != len(g["rows"]):
            return {"sheet": n, "rows_written": len(e["rows"]), "rows_read": len(g["rows"])}
        for i, (a, b) in enumerate(zip(e["rows"], g["rows"])):
            if a != b or [type(x) for x in b] != [str] * len(b):
                if len(a) != len(b):
                    return {"sheet": n, "row": i, "written": a, "read": b}
                for j, (x, y) in enumerate(zip(a, b)):
                    if x != y or type(y) is not str:
                        return {"sheet": n, "row": i, "col": j, "header": e["headers"][j], "written": x, "read": repr(y) if type(y) is not str else y}
    return None


def pairs_of_json_text(text: str):
    """the `sheets` member of a convert output with object key order kept: name → list of rows,
    each row a list of [key, value]"""
    doc = json.loads(text, object_pairs_hook=lambda ps: ("__obj__", ps))
    top = dict(doc[1])
    out = {}
    for name, content in top["sheets"][1]:
        rows = []
        kind = "objs"
        for r in content:
            if isinstance(r, tuple):
                rows.append([[k, v] for k, v in r[1]])
            else:
                kind = "lists"
                rows.append(r)
        out[name] = {kind: rows}
    return out


# --------------------------------------------------------------------------- model answers


def model_table(ans):
    """{"ok": {"headers", "rows"}} → same shape as read_sheets (headers [] ↔ None)"""
    if "ok" in ans:
        h = ans["ok"]["headers"]
        return {"headers": (h if h else None), "rows": ans["ok"]["rows"]}
    return {"__err__": ans.get("err", ans.get("__error__"))}


def model_book(ans):
    """{"ok": [{"name","headers","rows"}…]} → same shape as read_sheets"""
    if isinstance(ans, dict) and "ok" in ans:
        return {t["name"]: {"headers": (t["headers"] or None), "rows": t["rows"]} for t in ans["ok"]}
    return {"__err__": (ans.get("err") or ans.get("__error__")) if isinstance(ans, dict) else str(ans)}


# --------------------------------------------------------------------------- worker: read identity + tie


FORMATS = ("csv", "xlsx", "json<csv", "json<xlsx")
# + a JSON workbook written by the harness itself (not by convert: a converted file only holds what the source's reader
# delivered, so e.g. an all-empty row never reaches the JSON reader that way)
FORMATS_ALL = FORMATS + ("json",)


def materialise(base: str, sheets: list[dict], style: dict) -> dict:
    """write the workbook in all formats; returns {label: (fmt, path)}"""
    csv_dir = os.path.join(base, "csv")
    xlsx = os.path.join(base, "book.xlsx")
    j1 = os.path.join(base, "from_csv.json")
    j2 = os.path.join(base, "from_xlsx.json")
    os.makedirs(base)
    write_csv_folder(csv_dir, sheets, style)
    write_xlsx(xlsx, sheets, style)
    texts = {}
    paths = {"csv": ("csv", csv_dir), "xlsx": ("xlsx", xlsx)}
    for label, src, fmt, out in (("json<csv", csv_dir, "csv", j1), ("json<xlsx", xlsx, "xlsx", j2)):
        try:
            texts[label] = write_json_via_convert(src, fmt, out)
            paths[label] = ("json", out)
        except Exception as e:  # noqa: BLE001
            texts[label] = None
            paths[label] = ("__exc__", f"{type(e).__name__}: {e}"[:300])
    if all(len(set(s["headers"])) == len(s["headers"]) and s["rows"] for s in sheets):
        j0 = os.path.join(base, "written.json")
        with open(j0, "w", encoding="utf-8") as f:
            json.dump({"meta": {"version": "0.1.0"}, "sheets": {s["name"]: [dict(zip(s["headers"], r)) for r in s["rows"]] for s in sheets}},
                      f, ensure_ascii=False, indent=2)
        paths["json"] = ("json", j0)
    return {"paths": paths, "texts": texts}


def style_of(rng: random.Random) -> dict:
    return {"lt": rng.choice(["\r\n", "\n"]), "quote_all": rng.random() < 0.3, "skip_empty": rng.random() < 0.5,
            "pad_cols": rng.choice([0, 0, 1, 3]), "pad_rows": rng.choice([0, 0, 1, 4])}


def read_worker(seeds):
    tmp = tempfile.mkdtemp(prefix="c14r_")
    drv = core.Driver()
    out = {"n": 0, "viol": [], "ties": [], "strata": {}, "keys": [], "sample": None, "sheets": 0, "cells": 0}

    def count(k, n=1):
        out["strata"][k] = out["strata"].get(k, 0) + n

    try:
        pending, styles = [], []
        for seed in seeds:
            rng = random.Random(seed)
            sheets = gen_workbook(rng)
            sheets, btags = sprinkle_blank_rows(rng, sheets, 0.3, 0.4)
            for t in btags:
                count(t)
            count("workbook_with_all_empty_rows" if btags else "workbook_without_all_empty_rows")
            style = style_of(rng)
            base = os.path.join(tmp, "w%d" % out["n"])
            out["n"] += 1
            m = materialise(base, sheets, style)
            # what every reader must deliver: what was written, all-empty rows omitted (by every reader alike)
            exp = expect_of(omit_blank_rows(sheets))
            out["keys"].append(json.dumps(sheets, ensure_ascii=False, sort_keys=True))
            if out["sample"] is None:
                out["sample"] = {"sheets": [{"name": s["name"], "headers": s["headers"][:4], "rows": [r[:4] for r in s["rows"][:2]]} for s in sheets[:2]], "style": style}
            count("sheets_per_workbook=%d" % len(sheets))
            count("csv_lineterminator=" + repr(style["lt"]))
            count("csv_quote_all" if style["quote_all"] else "csv_quote_minimal")
            count("xlsx_empty_cells_absent" if style["skip_empty"] else "xlsx_empty_cells_as_empty_text")
            count("xlsx_blank_columns_beyond_table" if style["pad_cols"] else "xlsx_no_blank_columns_beyond_table")
            count("xlsx_blank_rows_beyond_table" if style["pad_rows"] else "xlsx_no_blank_rows_beyond_table")
            for s in sheets:
                out["sheets"] += 1
                out["cells"] += len(s["rows"]) * len(s["headers"])
                if not _is_nf("NFC", s["name"]):
                    count("sheet_name_not_nfc")
                elif not _is_nf("NFKC", s["name"]):
                    count("sheet_name_nfc_not_nfkc")
                count("header_not_nfc", sum(1 for h in s["headers"] if not _is_nf("NFC", h)))
                count("header_nfc_not_nfkc", sum(1 for h in s["headers"] if _is_nf("NFC", h) and not _is_nf("NFKC", h)))
                if len({norm_key(h) for h in s["headers"]}) < len(s["headers"]):
                    count("headers_differing_only_in_normalisation_or_case")
                count("rows=%s" % ("1" if len(s["rows"]) == 1 else "2-5" if len(s["rows"]) <= 5 else "6-15"))
                count("cols=%s" % ("1" if len(s["headers"]) == 1 else "2-5" if len(s["headers"]) <= 5 else "6+"))
                flat = [c for r in s["rows"] for c in r]
                for nm, pred in (("cell_empty", lambda c: c == ""), ("cell_newline", lambda c: "\n" in c), ("cell_comma", lambda c: "," in c),
                                 ("cell_quote", lambda c: "\"" in c), ("cell_sep", lambda c: any(x in c for x in "|;\\")),
                                 ("cell_lead_eq_or_apostrophe", lambda c: c[:1] in ("=", "'")), ("cell_astral", lambda c: any(ord(x) > 0xFFFF for x in c)),
                                 ("cell_non_ascii", lambda c: any(ord(x) > 127 for x in c)), ("cell_edge_space", lambda c: c != c.strip()),
                                 ("cell_not_nfc", lambda c: not c.isascii() and not _is_nf("NFC", c)),
                                 ("cell_nfc_not_nfkc", lambda c: not c.isascii() and _is_nf("NFC", c) and not _is_nf("NFKC", c)),
                                 ("cell_numeric_or_bool_looking", lambda c: c in ("007", "1.50", "1.0", "1e5", "TRUE", "FALSE", "True", "False", "0", "2020-01-31"))):
                    count(nm, sum(1 for c in flat if pred(c)))
            # C: every reader returns exactly what was written
            got_by = {}
            for label in FORMATS_ALL:
                if label not in m["paths"]:
                    continue
                fmt, path = m["paths"][label]
                got = {"__exc__": path} if fmt == "__exc__" else read_sheets(fmt, path)
                got_by[label] = got
                d = first_diff(exp, got)
                if d is not None and len(out["viol"]) < 10:
                    out["viol"].append({"what": f"{label}: sheets read differ from the sheets written" + (" (all-empty rows omitted)" if btags else ""), "diff": d,
                                        "workbook": minimise_names(sheets, d, style, label, tmp), "style": style, "format": label, "seed": seed})
            pending.append((sheets, m["texts"], got_by, seed))
            styles.append(style)
            # the same PATHS written again with another workbook (one process, as a long-running conversion job
            # does): what a reader returns is what the file holds now, never what the path held before
            if out["n"] % 2 == 0:
                reuse = os.path.join(tmp, "reuse")
                shutil.rmtree(reuse, ignore_errors=True)
                m2 = materialise(reuse, sheets, style)
                count("paths_rewritten_and_read_again")
                for label in FORMATS:
                    fmt, path = m2["paths"][label]
                    got = {"__exc__": path} if fmt == "__exc__" else read_sheets(fmt, path)
                    d = first_diff(exp, got)
                    if d is not None and len(out["viol"]) < 10:
                        out["viol"].append({"what": f"{label}: a path rewritten with another workbook is read as something else than what it holds now",
                                            "diff": d, "workbook": minimise_to_sheet(sheets, d), "style": style, "format": label, "seed": seed,
                                            "history": "the same paths held the workbook of an earlier case of this shard (seeds %s)" % [x[3] for x in pending[:-1]][-2:]})
        # B: the model on every sheet
        reqs, owners = [], []
        for wi, (sheets, texts, got_by, seed) in enumerate(pending):
            for s in sheets:
                reqs.append({"op": "sheets.all", "name": s["name"], "headers": s["headers"], "rows": s["rows"]})
                owners.append((wi, s))
                pc, pr = styles[wi].get("pad_cols", 0), styles[wi].get("pad_rows", 0)
                width = len(s["headers"]) + pc
                reqs.append({"op": "sheets.sanitize", "headers": [(h or None) for h in s["headers"]] + [None] * pc,
                             "rows": [[(c or None) for c in r] + [None] * pc for r in s["rows"]] + [[None] * width] * pr})
                owners.append((wi, None))
        answers = drv.results(reqs)
        # B (bytes): the CSV files the harness wrote (CRLF / LF, minimal / full quoting), byte for byte
        # through the model's load_csv (UTF-8 -> lines -> csv.reader automaton -> tablib loop)
        reqs2, owners2 = [], []
        for wi, (sheets, texts, got_by, seed) in enumerate(pending):
            for s in sheets:
                with open(os.path.join(tmp, "w%d" % wi, "csv", s["name"] + ".csv"), "rb") as f:
                    reqs2.append({"op": "csv.load", "bytes": list(f.read())})
                owners2.append((wi, s))
        for (wi, s), ans in zip(owners2, drv.results(reqs2)):
            real = pending[wi][2]["csv"]
            real_t = real.get(s["name"]) if "__exc__" not in real else {"__exc__": real["__exc__"]}
            mt = model_table(ans) if isinstance(ans, dict) else ans
            count("csv_bytes_through_model_load_csv")
            if mt != real_t and len(out["ties"]) < 10:
                out["ties"].append({"what": "model load_csv on the written CSV bytes and real CSV reader differ", "sheet": s, "style": styles[wi], "model": mt, "real": real_t, "seed": pending[wi][3]})
        # B (bytes): the JSON text the real convert wrote — model to_json text == real text, and the
        # model's JSONSheetReader on those bytes == the real JSON reader
        reqs3, owners3 = [], []
        for wi, (sheets, texts, got_by, seed) in enumerate(pending):
            by_name = {s["name"]: s for s in omit_blank_rows(sheets)}      # convert writes what the source's reader delivered
            for label in ("json<csv", "json<xlsx"):
                if texts[label] is None:
                    continue
                try:
                    order = list(json.loads(texts[label])["sheets"].keys())
                except Exception:  # noqa: BLE001
                    continue
                if sorted(order) != sorted(by_name):
                    continue        # a read difference: reported by C above
                reqs3.append({"op": "jsontext.dumpbook", "sheets": [by_name[n] for n in order]})
                owners3.append((wi, label, "dump"))
                reqs3.append({"op": "jsontext.loadbook", "bytes": list(texts[label].encode("utf-8"))})
                owners3.append((wi, label, "load"))
        for (wi, label, what), ans in zip(owners3, drv.results(reqs3)):
            sheets, texts, got_by, seed = pending[wi]
            count("json_bytes_through_model_" + what)
            if what == "dump":
                if ans != texts[label]:
                    # same VALUE in another representation (indentation, separators, \\uXXXX escapes)?  Then the
                    # writer's formatting changed, which the property does not care about: the model reader
                    # on the real bytes (next request) and the C oracle carry the claim; recorded, not alarmed
                    both = drv.results([{"op": "jsontext.loads", "text": ans}, {"op": "jsontext.loads", "text": texts[label]}]) if isinstance(ans, str) else [0, 1]
                    if both[0] == both[1] and isinstance(both[0], dict) and "ok" in both[0]:
                        count("json_writer_text_differs_same_value")
                    elif len(out["ties"]) < 10:
                        out["ties"].append({"what": f"model to_json text and real convert_to_json text ({label}) differ", "workbook": sheets, "model": str(ans)[:600], "real": texts[label][:600], "seed": seed})
            else:
                real = got_by[label]
                mt = model_book(ans)
                if mt != real and len(out["ties"]) < 10:
                    out["ties"].append({"what": f"model JSONSheetReader on the convert output ({label}) and real JSON reader differ", "workbook": sheets, "model": str(mt)[:600], "real": str(real)[:600], "seed": seed})
        json_pairs_cache = {}
        prev = None
        for (wi, s), ans in zip(owners, answers):
            sheets, texts, got_by, seed = pending[wi]
            if s is None:
                # the grid as openpyxl delivers it (with the blank cells beyond the table) through the model's _sanitize
                real = got_by["xlsx"]
                real_t = real.get(prev["name"]) if "__exc__" not in real else {"__exc__": real["__exc__"]}
                if model_table(ans) != real_t and len(out["ties"]) < 10:
                    out["ties"].append({"what": "model _sanitize on the padded grid and real XLSX reader differ", "sheet": prev, "style": styles[wi], "model": model_table(ans), "real": real_t, "seed": seed})
                continue
            prev = s
            if "__error__" in ans:
                out["ties"].append({"what": "driver error", "sheet": s, "error": ans["__error__"]})
                continue
            for label, key in (("csv", "csv"), ("xlsx", "xlsx"), ("json<csv", "json"), ("json<xlsx", "json")) + ((("json", "json"),) if "json" in got_by else ()):
                real = got_by[label]
                real_t = real.get(s["name"]) if "__exc__" not in real else {"__exc__": real["__exc__"]}
                mt = model_table(ans[key])
                if real_t != mt and len(out["ties"]) < 10:
                    out["ties"].append({"what": f"model reader ({key}) and real reader ({label}) differ", "sheet": s, "model": mt, "real": real_t, "seed": seed})
            for label in ("json<csv", "json<xlsx"):
                if texts[label] is None:
                    continue
                ck_ = (wi, label)
                if ck_ not in json_pairs_cache:
                    json_pairs_cache[ck_] = pairs_of_json_text(texts[label])
                real_c = json_pairs_cache[ck_].get(s["name"])
                if real_c != ans["convert"] and len(out["ties"]) < 10:
                    out["ties"].append({"what": f"model toJson and real convert_to_json ({label}) differ", "sheet": s, "model": ans["convert"], "real": real_c, "seed": seed})
    finally:
        shutil.rmtree(tmp, ignore_errors=True)
    return out


def minimise_to_sheet(sheets, d):
    """replay payload: only the sheet the difference is in (when known)"""
    if d and "sheet" in d:
        return [s for s in sheets if s["name"] == d["sheet"]]
    return sheets


def minimise_names(sheets, d, style, label, tmp):
    """replay payload when the NAMES read differ from the names written: the sheets that went missing alone, cut to one
    row — kept only if that smaller workbook still fails in the same format (checked by writing and reading it)"""
    if not d or "sheet_names_read" not in d:
        return minimise_to_sheet(sheets, d)
    lost = [s for s in sheets if s["name"] not in d["sheet_names_read"]]
    for cand in ([{**s, "headers": s["headers"][:2], "rows": [r[:2] for r in s["rows"][:1]]} for s in lost[:1]], lost):
        if not cand or not all(any(r) for s in cand for r in s["rows"]):
            continue
        base = tempfile.mkdtemp(prefix="min_", dir=tmp)
        try:
            fmt, path = materialise(os.path.join(base, "w"), cand, style)["paths"][label]
            if fmt == "__exc__" or first_diff(expect_of(cand), read_sheets(fmt, path)) is not None:
                return cand
        except Exception:  # noqa: BLE001
            pass
    return sheets


# --------------------------------------------------------------------------- worker: direct ties


def gen_xgrid(rng: random.Random):
    """what tablib hands to _sanitize: headers (None | list with None/str), rectangular rows of
    None / str / int / bool / float values"""
    r = rng.random()
    if r < 0.04:
        return {"headers": None, "rows": []}
    w = rng.randint(1, 7)
    if r < 0.10:
        headers = [None] * w
    else:
        headers = [rng.choice(["a", "b", "c", "type", "x y", "é", "0", ""]) + str(i) if rng.random() < 0.75 else None for i in range(w)]
        if rng.random() < 0.5:
            k = rng.randint(0, min(3, w))
            for i in range(w - k, w):
                headers[i] = None
    rows = []
    for _ in range(rng.randint(0, 8)):
        blank = rng.random() < 0.2
        row = []
        for _ in range(w):
            q = rng.random()
            if blank or q < 0.35:
                row.append(None)
            elif q < 0.45:
                row.append("")
            elif q < 0.75:
                row.append(rng.choice(["x", "0", "False", " ", "a,b", "l\nm", "é", "None", "007"]))
            elif q < 0.85:
                row.append(rng.choice([0, 1, -7, 42, 10 ** 20, -1]))
            elif q < 0.92:
                row.append(rng.choice([True, False]))
            else:
                row.append(rng.choice([1.5, 0.0, -0.0, 1e20, 0.1 + 0.2, 1e-7, 100000.0]))
        rows.append(row)
    return {"headers": headers, "rows": rows}


def xval_json(v):
    if v is None or isinstance(v, str):
        return v
    if isinstance(v, bool):
        return {"bool": v}
    if isinstance(v, int):
        return {"int": v}
    return {"other": str(v)}


_SANITIZER = []


def _find_sanitizer():
    """the function of rpft.parsers.sheets that turns the cells of a tablib Dataset into text (today the method
    XLSXSheetReader._sanitize): found by what it DOES on a probe table, whatever it is called and wherever it lives"""
    if _SANITIZER:
        return _SANITIZER[0]
    import inspect

    import tablib
    from rpft.parsers import sheets as M

    def probe(f):
        ds = tablib.Dataset()
        ds.headers = ["a", "b"]
        ds.append([1, None])
        try:
            t = f(ds)
            return isinstance(t, tablib.Dataset) and list(t.headers) == ["a", "b"] and [list(t[i]) for i in range(t.height)] == [["1", ""]]
        except Exception:  # noqa: BLE001
            return False

    cands = []
    x = getattr(M, "XLSXSheetReader", None)
    if x is not None and hasattr(x, "_sanitize"):
        cands.append(lambda ds, x=x: x._sanitize(None, ds))
    for name, obj in sorted(vars(M).items()):
        if inspect.isfunction(obj) and obj.__module__ == M.__name__:
            cands.append(obj)
        elif inspect.isclass(obj) and obj.__module__ == M.__name__:
            for mn, meth in sorted(vars(obj).items()):
                fn = meth.__func__ if isinstance(meth, (staticmethod, classmethod)) else meth
                if inspect.isfunction(fn) and not mn.startswith("__"):
                    cands.append(lambda ds, fn=fn: fn(None, ds))
                    cands.append(lambda ds, fn=fn: fn(ds))
    found = next((f for f in cands if probe(f)), None)
    _SANITIZER.append(found)
    return found


def real_sanitize(g):
    import tablib

    san = _find_sanitizer()
    if san is None:
        return {"__err__": "sanitizerNotFound"}
    ds = tablib.Dataset()
    if g["headers"] is not None:
        ds.headers = g["headers"]
    for r in g["rows"]:
        ds.append(r)
    try:
        t = san(ds)
    except TypeError:
        return {"__err__": "noHeaders"}
    except IndexError:
        return {"__err__": "allNoneHeaders"}
    except Exception as e:  # noqa: BLE001
        return {"__err__": type(e).__name__[0].lower() + type(e).__name__[1:]}
    return {"headers": (list(t.headers) if t.headers else None), "rows": [list(t[i]) for i in range(t.height)]}


def gen_jcontent(rng: random.Random):
    r = rng.random()
    if r < 0.08:
        return []
    keys = ["a", "b", "c", "d", "", "a b", "é"]
    if r < 0.3:
        w = rng.randint(0, 4)
        return [[rng.choice(["", "x", "0", "y,z"]) for _ in range(w if rng.random() < 0.8 else rng.randint(0, 5))] for _ in range(rng.randint(1, 5))]
    w = rng.randint(0, 4)
    hs = rng.sample(keys, w)
    rows = []
    for _ in range(rng.randint(1, 5)):
        q = rng.random()
        if q < 0.75:
            ks = hs
        elif q < 0.85:
            ks = rng.sample(keys, w)                      # same count, other keys / other order
        else:
            ks = rng.sample(keys, rng.randint(0, 5))      # short / long row
        rows.append({k: rng.choice(["", "x", "0", "l\nm", "é"]) for k in ks})
    return rows


def jcontent_json(c):
    if not c:
        return {"objs": []}
    if isinstance(c[0], list):
        return {"lists": c}
    return {"objs": [[[k, v] for k, v in r.items()] for r in c]}


def real_readjson(c, tmp, idx):
    p = os.path.join(tmp, "j%d.json" % idx)
    with open(p, "w", encoding="utf-8") as f:
        json.dump({"meta": {"version": "0.1.0"}, "sheets": {"s": c}}, f, ensure_ascii=False)
    got = read_sheets("json", p)
    if "__exc__" in got:
        name = got["__exc__"].split(":")[0]
        return {"__err__": name[0].lower() + name[1:]}
    return got.get("s", {"__err__": "sheetMissing"})


def gen_dict_table(rng: random.Random):
    """headers (possibly duplicate / absent) + rectangular rows for `table.dict`"""
    w = rng.randint(0, 4)
    headers = [rng.choice(["a", "b", "c", "a"]) for _ in range(w)] if rng.random() < 0.8 else []
    nrows = rng.randint(0, 4)
    width = w if headers else rng.randint(0, 3)
    return {"headers": headers, "rows": [[rng.choice(["", "x", "0", "y"]) for _ in range(width)] for _ in range(nrows)]}


def real_table_dict(t):
    import tablib

    ds = tablib.Dataset()
    if t["headers"]:
        ds.headers = t["headers"]
    for r in t["rows"]:
        ds.append(r)
    return jcontent_json(ds.dict)


def direct_worker(seeds):
    tmp = tempfile.mkdtemp(prefix="c14d_")
    drv = core.Driver()
    out = {"n": 0, "ties": [], "viol": [], "strata": {}, "keys": []}

    def count(k, n=1):
        out["strata"][k] = out["strata"].get(k, 0) + n

    try:
        reqs, reals, kinds, inputs = [], [], [], []
        for seed in seeds:
            rng = random.Random(seed)
            g = gen_xgrid(rng)
            reqs.append({"op": "sheets.sanitize", "headers": g["headers"], "rows": [[xval_json(v) for v in r] for r in g["rows"]]})
            real = real_sanitize(g)
            reals.append(real)
            kinds.append("sanitize")
            inputs.append(g)
            count("sanitize:" + (real.get("__err__") or "ok"))
            if "__err__" not in real:
                # C-style checks on the real function: idempotent; every row has header-count cells,
                # all str, one non-empty
                hs = real["headers"] or []
                again = real_sanitize({"headers": hs, "rows": real["rows"]})
                if again != real:
                    out["viol"].append({"what": "_sanitize is not idempotent", "grid": g, "once": real, "twice": again})
                for r in real["rows"]:
                    if len(r) != len(hs) or not all(type(c) is str for c in r) or not any(r):
                        out["viol"].append({"what": "_sanitize returned a row that is not header-count many strings with one non-empty", "grid": g, "row": r})
                kept = sum(1 for r in g["rows"] if any((str(v) if v is not None else "") for v in r[:len(hs)]))
                if len(real["rows"]) != kept:
                    out["viol"].append({"what": "_sanitize does not keep exactly the rows that have a non-empty cell under a header", "grid": g, "got": real})
            c = gen_jcontent(rng)
            reqs.append({"op": "sheets.readjson", "content": jcontent_json(c)})
            real = real_readjson(c, tmp, out["n"])
            reals.append(real)
            kinds.append("readjson")
            inputs.append(c)
            count("readjson:" + (real.get("__err__") or "ok"))
            t = gen_dict_table(rng)
            reqs.append({"op": "sheets.tojson", "name": "s", "headers": t["headers"], "rows": t["rows"]})
            reals.append(real_table_dict(t))
            kinds.append("tojson")
            inputs.append(t)
            count("tojson:" + ("dup_headers" if len(set(t["headers"])) < len(t["headers"]) else "no_headers" if not t["headers"] else "plain"))
            out["n"] += 3
            out["keys"].append(json.dumps([g, c, t], ensure_ascii=False, sort_keys=True, default=str))
        answers = drv.results(reqs)
        for kind, inp, real, ans in zip(kinds, inputs, reals, answers):
            model = ans if kind == "tojson" else (model_table(ans) if isinstance(ans, dict) else ans)
            if model != real and len(out["ties"]) < 10:
                out["ties"].append({"what": f"direct tie {kind}: model and real differ", "input": inp, "model": model, "real": real})
    finally:
        shutil.rmtree(tmp, ignore_errors=True)
    return out


# --------------------------------------------------------------------------- CSV byte format: model (Rpft/Csv.lean) vs the real csv module / file iteration / codec

CSV_ALPHA = ["a", ",", "\"", "\r", "\n", " ", "é"]
CSV_STYLES = [("\r\n", False), ("\r\n", True), ("\n", False), ("\n", True)]

# unusual-but-legal (or merely tolerated) texts; the first block is kernel-checked in Props/C14
# (csv_reader_quirks, needs_validRow, csv_blank_line_vs_blank_row, lf_minimal_loses_cr)
CSV_HANDMADE = [
    "a,b\nc,d", "a\rb\r", "a,\"b\nc", "\"a\"b,\"c\" \n", "a\"b, \"c\"\n", "x\r\r\ny",
    "a\rb\n", "\"a,b\n", "\n", "a,b\r\n\r\n1,2\r\n", "a,b\r\n,\r\n1,2\r\n", "a\r\n\"\"\r\n1\r\n",
    "", "\r", "\r\n", "\n\r", "\r\r\n", "\"", "\"\"", "\"\"\"", "\"\"\"\"", "a,\"", "\"a\"\"", "\"a\"\"\"", "\"a\r\"\n\"",
    "\"a\",\"b\"\r\n\"c\",\"d\"\r\n", "\"say \"\"hi\"\"\",x\n", "\"l1\r\nl2\",\"l3\rl4\",\"l5\nl6\"\r\n",
    "a,b\n1\n1,2,3\n", ",\n", ",,\n,,", "a,\n", " a , b \n", " \"a\",b\n", "\"a\" ,b\n", "\"a\"x\"b\"\n",
    "\ufeffa,b\n1,2\n", "a\x00b\n", "a\u2028b,c\u0085d\x0b\x0c\x1c\n", "é,日本,\U0001F600\r\n", "a\tb\n", "a;b\n", "'a,b'\n",
    "\"a\"\r\r\nb", "a\r\n\r\n\r\nb\r\n", "\"\",\"\"\n", "\"\n\"\n", "\"\r\"\r", "x,\"\r\n\"\r\ny", "\"a\"\n\"b\"", "a,b\r", "a,b\r\nc",
]


def real_csv_write(recs, lt, qa) -> str:
    buf = io.StringIO()
    w = csv.writer(buf, delimiter=",", lineterminator=lt, quoting=csv.QUOTE_ALL if qa else csv.QUOTE_MINIMAL)
    for r in recs:
        w.writerow(r)
    return buf.getvalue()


def csv_err_name(e: Exception) -> str:
    m = str(e)
    if isinstance(e, UnicodeDecodeError):
        return "decode"
    if "field larger than field limit" in m:
        return "fieldLimit"
    if "new-line character seen in unquoted field" in m:
        return "newlineInUnquoted"
    n = type(e).__name__
    return n[0].lower() + n[1:]


def real_csv_read(text: str):
    """what `csv.reader` yields for a file opened with newline="" (tablib's call: delimiter=",")"""
    try:
        return {"ok": [list(r) for r in csv.reader(io.StringIO(text, newline=""), delimiter=",")]}
    except csv.Error as e:
        return {"err": csv_err_name(e)}


def real_lines(text: str):
    return list(io.StringIO(text, newline=""))


def real_load_csv_bytes(data: bytes, tmp: str, idx: int):
    """the project's own `load_csv` on a file with exactly these bytes"""
    from rpft.parsers.sheets import load_csv

    p = os.path.join(tmp, "f%d.csv" % idx)
    with open(p, "wb") as f:
        f.write(data)
    try:
        t = load_csv(p)
    except Exception as e:  # noqa: BLE001
        return {"__err__": csv_err_name(e)}
    finally:
        os.remove(p)
    return {"headers": (list(t.headers) if t.headers else None), "rows": [list(t[i]) for i in range(t.height)]}


def csv_lines_from_file(text: str, tmp: str):
    """line iteration of a REAL text file opened as load_csv opens it"""
    p = os.path.join(tmp, "lines.txt")
    with open(p, "w", encoding="utf-8", newline="") as f:
        f.write(text)
    with open(p, "r", encoding="utf-8", newline="") as f:
        out = list(f)
    os.remove(p)
    return out


def csv_small_strings(n: int):
    import itertools

    return ["".join(q) for k in range(0, n + 1) for q in itertools.product(CSV_ALPHA, repeat=k)]


def csv_small_grids():
    """every grid of at most 2 fields in one record / 1 field in each of two records, over all
    strings of length ≤ 2 of the alphabet, plus the empty-record shapes"""
    import itertools

    strs = csv_small_strings(2)
    grids = [[]] + [[list(r)] for n in range(0, 3) for r in itertools.product(strs, repeat=n)]
    grids += [[[a], [b]] for a in strs for b in strs]
    grids += [[[], [a]] for a in strs] + [[[a], []] for a in strs] + [[[], []], [[""], [""]], [["", ""], [""]], [[""], [], [""]]]
    return grids


def csv_text_worker(texts):
    """reader + line iterator on arbitrary texts: model vs real (tie)"""
    drv = core.Driver()
    out = {"n": 0, "ties": [], "viol": [], "strata": {}, "keys": []}
    reqs = []
    for t in texts:
        reqs.append({"op": "csv.read", "text": t})
        reqs.append({"op": "csv.lines", "text": t})
    ans = drv.results(reqs)
    for i, t in enumerate(texts):
        real = real_csv_read(t)
        out["n"] += 1
        k = "csv_text:" + ("error_" + real["err"] if "err" in real else "records=%s" % min(len(real["ok"]), 3))
        out["strata"][k] = out["strata"].get(k, 0) + 1
        if "ok" in real:
            for nm, cond in (("csv_text:blank_record", any(r == [] for r in real["ok"])),
                             ("csv_text:field_with_line_end", any("\n" in c or "\r" in c for r in real["ok"] for c in r)),
                             ("csv_text:field_with_quote", any("\"" in c for r in real["ok"] for c in r))):
                if cond:
                    out["strata"][nm] = out["strata"].get(nm, 0) + 1
        if ans[2 * i] != real and len(out["ties"]) < 10:
            out["ties"].append({"what": "csv.reader: model and real differ", "text": t, "model": ans[2 * i], "real": real})
        rl = real_lines(t)
        if ans[2 * i + 1] != rl and len(out["ties"]) < 10:
            out["ties"].append({"what": "newline='' line iteration: model and real differ", "text": t, "model": ans[2 * i + 1], "real": rl})
    out["keys"] = ["csvtext:" + t for t in texts]
    return out


def plain_for_reader(c: str) -> bool:
    return not any(x in c for x in ",\"\r\n")


def csv_grid_worker(grids):
    """writer (4 dialects) model vs real, reader model vs real on the real writer's text, and the
    statement of csv_read_write_dialect evaluated on the REAL pair"""
    drv = core.Driver()
    out = {"n": 0, "ties": [], "viol": [], "strata": {}, "keys": []}

    def count(k, n=1):
        out["strata"][k] = out["strata"].get(k, 0) + n

    reqs, meta = [], []
    for g in grids:
        for lt, qa in CSV_STYLES:
            text = real_csv_write(g, lt, qa)
            reqs.append({"op": "csv.write", "records": g, "lt": lt, "quote_all": qa})
            reqs.append({"op": "csv.read", "text": text})
            meta.append((g, lt, qa, text))
    ans = drv.results(reqs)
    for i, (g, lt, qa, text) in enumerate(meta):
        out["n"] += 1
        style = "csv_grid:lt=%s,%s" % ("CRLF" if lt == "\r\n" else "LF", "quote_all" if qa else "minimal")
        count(style)
        mw, mr = ans[2 * i], ans[2 * i + 1]
        if mw != text and len(out["ties"]) < 10:
            out["ties"].append({"what": "csv.writer: model and real differ", "records": g, "lt": lt, "quote_all": qa, "model": mw, "real": text})
        real = real_csv_read(text)
        if mr != real and len(out["ties"]) < 10:
            out["ties"].append({"what": "csv.reader on the real writer's text: model and real differ", "text": text, "model": mr, "real": real})
        # the theorem's statement on the real pair (library level: a disagreement is a tie break of
        # the model's claim, the project-level oracle is the file stream)
        guard = qa or lt == "\r\n" or all("\r" not in c for r in g for c in r)
        if guard:
            if real != {"ok": g} and len(out["ties"]) < 10:
                out["ties"].append({"what": "real csv.reader(csv.writer(records)) != records inside the guard of csv_read_write_dialect", "records": g, "lt": lt, "quote_all": qa, "read": real})
        else:
            count("csv_grid:outside_guard(LF,minimal,CR in cell)")
            if real == {"ok": g}:
                count("csv_grid:outside_guard_but_exact")
    for g in grids:
        flat = [c for r in g for c in r]
        for nm, cond in (("csv_grid:empty_record", any(r == [] for r in g)), ("csv_grid:lone_empty_field", any(r == [""] for r in g)),
                         ("csv_grid:cell_cr", any("\r" in c for c in flat)), ("csv_grid:cell_lf", any("\n" in c for c in flat)),
                         ("csv_grid:cell_quote", any("\"" in c for c in flat)), ("csv_grid:cell_comma", any("," in c for c in flat)),
                         ("csv_grid:cell_edge_space", any(c != c.strip(" ") for c in flat)), ("csv_grid:cell_non_ascii", any(ord(x) > 127 for c in flat for x in c)),
                         ("csv_grid:ragged", len({len(r) for r in g}) > 1)):
            if cond:
                count(nm)
    out["keys"] = ["csvgrid:" + json.dumps(g, ensure_ascii=False) for g in grids]
    return out


def gen_csv_cell(rng: random.Random) -> str:
    r = rng.random()
    if r < 0.15:
        return ""
    if r < 0.5:
        return gen_cell(rng)
    n = rng.randint(1, 12) if r < 0.9 else rng.randint(40, 300)
    return "".join(rng.choice(["a", "b", " ", ",", "\"", "\r", "\n", "\r\n", "é", "\U0001F600", " ", "\x00", "\t", ";", "0"]) for _ in range(n))


def gen_csv_grid(rng: random.Random):
    """larger random record lists, ragged on purpose (the csv module does not care)"""
    rows = []
    for _ in range(rng.randint(0, 12)):
        q = rng.random()
        if q < 0.06:
            rows.append([])
        elif q < 0.12:
            rows.append([""])
        else:
            rows.append([gen_csv_cell(rng) for _ in range(rng.randint(1, 9))])
    return rows


def mutate_csv_text(rng: random.Random, text: str) -> str:
    """texts no writer produced: blank lines, missing / extra fields, bare CR / LF line ends, no final
    line end, BOM, stray quotes"""
    k = rng.randrange(10)
    if k == 0:
        return text.replace("\r\n", "\n")
    if k == 1:
        return text[:-2] if text.endswith("\r\n") else text
    if k == 2:
        i = rng.randint(0, len(text))
        return text[:i] + rng.choice(["\r\n", "\n", "\r", "\r\n\r\n"]) + text[i:]
    if k == 3:
        i = rng.randint(0, len(text))
        return text[:i] + rng.choice([",", "\"", "\"\"", " ", ",,"]) + text[i:]
    if k == 4 and text:
        i = rng.randrange(len(text))
        return text[:i] + text[i + 1:]
    if k == 5:
        return "\ufeff" + text
    if k == 6:
        return text + rng.choice(["x", "x,y", "\"open", ",", "\r", "\"\"", "1,2,3,4,5,6,7,8,9,10,11,12,13,14"])
    if k == 7:
        return text.replace("\r\n", "\r")
    if k == 8:
        return "\r\n" + text
    return text.replace(",", ",,", 1)


def csv_file_worker(seeds):
    """the project's own path, bytes to sheet: tablib export -> UTF-8 file -> load_csv.
    C: load_csv(export(sheet)) is the sheet, cell by cell (the property's CSV leg on the real code).
    B: model exportCsv == real export text; model loadCsv(bytes) == real load_csv(file) on the
    written files AND on mutated / malformed files (errors included)."""
    import tablib

    tmp = tempfile.mkdtemp(prefix="c14csv_")
    drv = core.Driver()
    out = {"n": 0, "ties": [], "viol": [], "strata": {}, "keys": []}

    def count(k, n=1):
        out["strata"][k] = out["strata"].get(k, 0) + n

    try:
        reqs, checks = [], []
        for seed in seeds:
            rng = random.Random(seed)
            s = gen_sheet(rng, "s")
            for r in s["rows"]:
                for j in range(len(r)):
                    if rng.random() < 0.3:
                        r[j] = gen_csv_cell(rng) or r[j]
            if rng.random() < 0.15:
                s["headers"][rng.randrange(len(s["headers"]))] += rng.choice([",", "\"", "\r\n", "\r", "\n"])
                if len(set(s["headers"])) < len(s["headers"]):
                    continue
            if rng.random() < 0.25:
                s, btags = with_blank_rows(rng, s)
                for t in btags:
                    count("csv_file:" + t)
            ds = tablib.Dataset()
            ds.headers = s["headers"]
            for r in s["rows"]:
                ds.append(r)
            text = ds.export("csv")
            data = text.encode("utf-8")
            out["n"] += 1
            out["keys"].append("csvfile:" + json.dumps(s, ensure_ascii=False, sort_keys=True))
            count("csv_file:sheets")
            flat = [c for r in s["rows"] for c in r] + s["headers"]
            for nm, cond in (("csv_file:cell_cr", any("\r" in c for c in flat)), ("csv_file:cell_crlf", any("\r\n" in c for c in flat)),
                             ("csv_file:cell_lf", any("\n" in c for c in flat)), ("csv_file:cell_quote", any("\"" in c for c in flat)),
                             ("csv_file:one_column", len(s["headers"]) == 1), ("csv_file:cell_nul", any("\x00" in c for c in flat))):
                if cond:
                    count(nm)
            real = real_load_csv_bytes(data, tmp, out["n"])
            exp = {"headers": s["headers"], "rows": omit_blank_rows([s])[0]["rows"]}
            if real != exp and len(out["viol"]) < 5:
                out["viol"].append({"what": "csv: load_csv of the file tablib exported for a sheet differs from the sheet (all-empty rows omitted)",
                                    "workbook": [s], "format": "csv", "seed": seed, "diff": first_diff({"s": exp}, {"s": real} if "__err__" not in real else {"__exc__": real["__err__"]})})
            reqs.append({"op": "csv.export", "name": "s", "headers": s["headers"], "rows": s["rows"]})
            checks.append(("export", s, text))
            reqs.append({"op": "csv.load", "bytes": list(data)})
            checks.append(("load", data, real))
            # malformed / foreign files
            for _ in range(3):
                t2 = mutate_csv_text(rng, text)
                d2 = t2.encode("utf-8")
                if rng.random() < 0.1 and d2:
                    i = rng.randrange(len(d2))
                    d2 = d2[:i] + bytes([rng.choice([0x80, 0xC0, 0xFF, 0xED, 0xE2])]) + d2[i + 1:]
                r2 = real_load_csv_bytes(d2, tmp, out["n"])
                count("csv_file:mutated:" + (r2.get("__err__") or ("same_as_sheet" if r2 == exp else "other_sheet")))
                reqs.append({"op": "csv.load", "bytes": list(d2)})
                checks.append(("load", d2, r2))
        answers = drv.results(reqs)
        for (kind, inp, real), ans in zip(checks, answers):
            if kind == "export":
                if ans != real and len(out["ties"]) < 10:
                    out["ties"].append({"what": "tablib export('csv'): model and real text differ", "sheet": inp, "model": ans, "real": real})
            else:
                mt = model_table(ans) if isinstance(ans, dict) else ans
                if mt != real and len(out["ties"]) < 10:
                    out["ties"].append({"what": "load_csv on file bytes: model and real differ", "bytes": inp.decode("utf-8", "backslashreplace"), "model": mt, "real": real})
    finally:
        shutil.rmtree(tmp, ignore_errors=True)
    return out


def csv_utf8_worker(seeds):
    """UTF-8 layer: model encode == str.encode; model strict decoder == bytes.decode on valid,
    truncated, overlong, surrogate and out-of-range sequences"""
    drv = core.Driver()
    out = {"n": 0, "ties": [], "viol": [], "strata": {}, "keys": []}
    pool = ["a", "é", "ß", "\u07ff", "\u0800", "日", "\ud7ff", "\ue000", "\ufeff", "\uffff", "\U00010000", "\U0001F600", "\U0010FFFF", "\x00", "\x7f", "\x80", "\r", "\n"]
    bad = [b"\x80", b"\xc0\x80", b"\xc1\xbf", b"\xe0\x80\x80", b"\xe0\x9f\xbf", b"\xed\xa0\x80", b"\xed\xbf\xbf", b"\xf0\x80\x80\x80", b"\xf0\x8f\xbf\xbf",
           b"\xf4\x90\x80\x80", b"\xf5\x80\x80\x80", b"\xff", b"\xfe", b"\xc3", b"\xe2\x82", b"\xf0\x9f\x98", b"\xc3\x28", b"\xe2\x28\xa1", b"\xef\xbb\xbf"]
    reqs, exp = [], []
    for seed in seeds:
        rng = random.Random(seed)
        t = "".join(rng.choice(pool) for _ in range(rng.randint(0, 12)))
        reqs.append({"op": "csv.utf8enc", "text": t})
        exp.append(("enc", t, list(t.encode("utf-8"))))
        b = t.encode("utf-8")
        q = rng.random()
        if q < 0.5:
            i = rng.randint(0, len(b))
            b = b[:i] + rng.choice(bad) + b[i:]
        elif q < 0.7 and b:
            b = b[:rng.randrange(len(b))]
        try:
            want = b.decode("utf-8")
            out["strata"]["csv_utf8:decodes"] = out["strata"].get("csv_utf8:decodes", 0) + 1
        except UnicodeDecodeError:
            want = None
            out["strata"]["csv_utf8:rejected"] = out["strata"].get("csv_utf8:rejected", 0) + 1
        reqs.append({"op": "csv.utf8dec", "bytes": list(b)})
        exp.append(("dec", b.hex(), want))
        out["n"] += 2
        out["keys"].append("utf8:" + t + ":" + b.hex())
    for (kind, inp, want), ans in zip(exp, drv.results(reqs)):
        if ans != want and len(out["ties"]) < 10:
            out["ties"].append({"what": f"UTF-8 {kind}: model and Python codec differ", "input": inp, "model": ans, "real": want})
    return out


def csv_fixed_stream(ck: core.Check, tmp: str):
    """hand-made texts, the kernel-checked facts of Props/C14 about concrete texts, the field limit
    at its real value, the dialect facts the model is built on — all against the real libraries"""
    import tablib

    drv = core.Driver()
    # dialect facts (a change of the interpreter / tablib shows up here first)
    facts = {
        "csv.field_size_limit()": csv.field_size_limit(),
        "excel.delimiter": csv.excel.delimiter, "excel.quotechar": csv.excel.quotechar, "excel.doublequote": csv.excel.doublequote,
        "excel.quoting": csv.excel.quoting, "excel.lineterminator": csv.excel.lineterminator, "excel.escapechar": csv.excel.escapechar,
        "excel.skipinitialspace": csv.excel.skipinitialspace,
    }
    want = {"csv.field_size_limit()": 131072, "excel.delimiter": ",", "excel.quotechar": "\"", "excel.doublequote": True, "excel.quoting": csv.QUOTE_MINIMAL,
            "excel.lineterminator": "\r\n", "excel.escapechar": None, "excel.skipinitialspace": False}
    ck.extra["csv_dialect_facts"] = {k: repr(v) for k, v in facts.items()}
    ck.case("csv:dialect-facts")
    if facts != want:
        ck.tie_break("csv dialect facts the model is built on no longer hold", {"now": {k: repr(v) for k, v in facts.items()}})
    # hand-made texts
    reqs = []
    for t in CSV_HANDMADE:
        reqs += [{"op": "csv.read", "text": t}, {"op": "csv.lines", "text": t}, {"op": "csv.load", "bytes": list(t.encode("utf-8"))}]
    ans = drv.results(reqs)
    for i, t in enumerate(CSV_HANDMADE):
        ck.case("csv:handmade:" + t)
        ck.count("csv_handmade_texts")
        real = real_csv_read(t)
        if ans[3 * i] != real:
            ck.tie_break("hand-made csv text: model reader and real csv.reader differ", {"text": t, "model": ans[3 * i], "real": real})
        fl = csv_lines_from_file(t, tmp)
        if ans[3 * i + 1] != fl or fl != real_lines(t):
            ck.tie_break("hand-made csv text: line iteration of a real newline='' file differs from the model", {"text": t, "model": ans[3 * i + 1], "file": fl})
        rl = real_load_csv_bytes(t.encode("utf-8"), tmp, i)
        if model_table(ans[3 * i + 2]) != rl:
            ck.tie_break("hand-made csv text: model load_csv and real load_csv differ", {"text": t, "model": model_table(ans[3 * i + 2]), "real": rl})
    # kernel-checked facts, replayed on the real libraries (must hold verbatim)
    kernel = [
        ("csv_reader_quirks", "a,b\nc,d", [["a", "b"], ["c", "d"]]), ("csv_reader_quirks", "a\rb\r", [["a"], ["b"]]),
        ("csv_reader_quirks", "a,\"b\nc", [["a", "b\nc"]]), ("csv_reader_quirks", "\"a\"b,\"c\" \n", [["ab", "c "]]),
        ("csv_reader_quirks", "a\"b, \"c\"\n", [["a\"b", " \"c\""]]), ("csv_reader_quirks", "x\r\r\ny", [["x"], [], ["y"]]),
        ("needs_validRow", "a\rb\n", [["a"], ["b"]]), ("needs_validRow", "\"a,b\n", [["a,b\n"]]), ("needs_validRow", "\n", [[]]),
        ("lf_minimal_loses_cr", real_csv_write([["a\rb"]], "\n", False), [["a"], ["b"]]),
        ("lf_minimal_loses_cr", real_csv_write([["a\rb"]], "\n", True), [["a\rb"]]),
        ("lf_minimal_loses_cr", real_csv_write([["a\rb"]], "\r\n", False), [["a\rb"]]),
    ]
    for thm, t, recs in kernel:
        ck.case("csv:kernel:" + thm + ":" + t)
        ck.count("csv_kernel_facts_replayed")
        if real_csv_read(t) != {"ok": recs}:
            ck.tie_break(f"kernel-checked fact {thm} does not hold on the real csv.reader", {"text": t, "model": recs, "real": real_csv_read(t)})
    if real_csv_write([["a\rb"]], "\n", False) != "a\rb\n":
        ck.tie_break("kernel-checked fact lf_minimal_loses_cr: the real LF/QUOTE_MINIMAL writer now quotes a CR", {"real": real_csv_write([["a\rb"]], "\n", False)})
    hostile = [["a,b", "say \"hi\"", "l1\r\nl2\rl3\nl4", "é日本", "", " x "], [], [""], ["", ""], ["\""], ["\r", "\n", ","]]
    ck.case("csv:kernel:gHostile")
    if real_csv_read(real_csv_write(hostile, "\r\n", False)) != {"ok": hostile}:
        ck.tie_break("gHostile does not round-trip through the real csv module", {"text": real_csv_write(hostile, "\r\n", False)})
    for name, s, want_t in (("wNoHeaderRows", {"headers": [], "rows": [["x"], ["y"]]}, {"headers": ["x"], "rows": [["y"]]}),
                            ("wShortRow", {"headers": ["a", "b"], "rows": [["1"]]}, None),
                            ("wNoHeader", {"headers": [], "rows": [[], []]}, {"headers": None, "rows": []})):
        # csv_file_needs_header_and_rect: tablib itself refuses to BUILD the ragged datasets, so the
        # short/long rows are replayed as files (what matters is what load_csv makes of the text)
        ck.case("csv:kernel:" + name)
        if want_t is None:
            continue
        ds = tablib.Dataset()
        if s["headers"]:
            ds.headers = s["headers"]
        for r in s["rows"]:
            ds.append(r)
        real = real_load_csv_bytes(ds.export("csv").encode("utf-8"), tmp, 0)
        if real != want_t:
            ck.tie_break(f"kernel-checked fact csv_file_needs_header_and_rect ({name}) does not hold on the real code", {"sheet": s, "model": want_t, "real": real})
    for name, text, want_t in (("wShortRow", "a,b\r\n1\r\n", {"headers": ["a", "b"], "rows": [["1", ""]]}), ("wLongRow", "a\r\n1,2\r\n", {"__err__": "invalidDimensions"}),
                               ("blank_line", "a,b\r\n\r\n1,2\r\n", {"headers": ["a", "b"], "rows": [["1", "2"]]}),
                               ("blank_row", "a,b\r\n,\r\n1,2\r\n", {"headers": ["a", "b"], "rows": [["1", "2"]]}),
                               ("blank_row_one_column", "a\r\n\"\"\r\n1\r\n", {"headers": ["a"], "rows": [["1"]]}),
                               ("blank_row_vs_row_of_blanks", "a,b\r\n, \r\n,\r\n", {"headers": ["a", "b"], "rows": [["", " "]]})):
        ck.case("csv:kernel:file:" + name)
        ck.count("csv_kernel_facts_replayed")
        real = real_load_csv_bytes(text.encode("utf-8"), tmp, 0)
        if real != want_t:
            ck.tie_break(f"kernel-checked fact ({name}) does not hold on the real load_csv", {"text": text, "model": want_t, "real": real})
    # the field limit at its real value (needs_fieldsFit is kernel-checked at limit 3)
    reqs, reals = [], []
    for n in (131072, 131073):
        for cell in ("x" * n, "x" * (n - 1) + ",", "\"" * n):
            text = real_csv_write([["h"], [cell]], "\r\n", False)
            reqs.append({"op": "csv.read", "text": text})
            reals.append((n, cell[-1], real_csv_read(text), [["h"], [cell]]))
    for n in (131072, 131073):
        # the project's own load_csv at the limit (it never raises the limit: behavioural check)
        rl = real_load_csv_bytes(("h\r\n" + "y" * n + "\r\n").encode("utf-8"), tmp, n)
        ck.case(f"csv:field-limit:load_csv:{n}")
        if (n <= 131072) != ("__err__" not in rl) or rl.get("__err__", "fieldLimit") != "fieldLimit":
            ck.tie_break("field limit: load_csv does not fail exactly above 131072 characters per cell", {"cell_chars": n, "real": str(rl)[:80]})
    for (n, kind, real, recs), a in zip(reals, drv.results(reqs)):
        ck.case(f"csv:field-limit:{n}:{kind}")
        ck.count("csv_field_limit_cases")
        if a != real:
            ck.tie_break("field limit: model and real csv.reader differ", {"cell_chars": n, "cell_kind": kind, "model": str(a)[:80], "real": str(real)[:80]})
        if (n <= 131072) != (real == {"ok": recs}):
            ck.tie_break("field limit: the real reader does not fail exactly above 131072 characters", {"cell_chars": n, "cell_kind": kind, "real": str(real)[:80]})
    # needs_fieldsFit at limit 3 (the driver takes the limit as a parameter)
    for cell, want_a in (("abc", {"ok": [["abc"]]}), ("abcd", {"err": "fieldLimit"}), ("a\"\"b", {"err": "fieldLimit"})):
        old = csv.field_size_limit(3)
        try:
            real = real_csv_read(real_csv_write([[cell]], "\r\n", False))
        finally:
            csv.field_size_limit(old)
        a = drv.results([{"op": "csv.read", "text": real_csv_write([[cell]], "\r\n", False), "limit": 3}])[0]
        ck.case("csv:kernel:needs_fieldsFit:" + cell)
        if not (a == real == want_a):
            ck.tie_break("kernel-checked fact needs_fieldsFit does not hold on the real csv.reader", {"cell": cell, "model": a, "real": real})


# --------------------------------------------------------------------------- JSON string literals: model (Rpft/JsonText.lean) vs the real json module

JSON_ENC_ALPHA = ["a", "\"", "\\", "/", "\n", "\r", "\t", "\b", "\f", "\x00", "\x1f", "\x7f", " ", "é", "\u2028", "\U0001F600", "u"]
JSON_SCAN_ALPHA = ["\"", "\\", "u", "n", "/", "d", "8", "0", "A", "x", "\n", "é"]
JSON_SCAN_FRAGMENTS = ["\\u00e9", "\\u00E9", "\\ud83d", "\\ude00", "\\uD83D\\uDE00", "\\ud83d\\ude00", "\\u0041", "\\u12", "\\uzzzz", "\\u 123", "\\u+123", "\\u1_23", "\\u0x12",
                       "\\n", "\\r", "\\t", "\\b", "\\f", "\\/", "\\\\", "\\\"", "\\a", "\\U0041", "\\x41", "a", "é", "\U0001F600", "\x7f", "\x1f", "\n", "\t", "\"", "\\", " ", "u", "\\u", "\\ud83d\\u", "\\ud83d\\ude0", "\\udbff\\udfff", "\\ud800\\udc00", "\\udc00\\ud800", "\\uffff", "\\u0000"]


def json_err_name(e: Exception) -> str:
    m = str(e)
    for needle, name in (("Invalid control character", "controlChar"), ("Invalid \\uXXXX escape", "invalidUnicodeEscape"), ("Invalid \\escape", "invalidEscape"),
                         ("Unterminated string", "unterminated")):
        if needle in m:
            return name
    return type(e).__name__


def real_json_scan(text: str):
    """the scanner `json.loads` uses for string literals (C accelerator when present), on a text
    that starts with the opening quote"""
    if not text.startswith("\""):
        return {"err": "unterminated"}
    try:
        v, end = json.decoder.scanstring(text, 1)
    except json.JSONDecodeError as e:
        return {"err": json_err_name(e)}
    return {"ok": [v, text[end:]]}


def has_surrogate(x) -> bool:
    return any(0xD800 <= ord(c) <= 0xDFFF for c in x)


def json_string_worker(task):
    """encode: model == json.dumps(s, ensure_ascii=False) == py_encode_basestring(s); scan: model ==
    scanstring on arbitrary texts; and the round trip on the real pair"""
    kind, items = task
    drv = core.Driver()
    out = {"n": 0, "ties": [], "viol": [], "strata": {}, "keys": []}

    def count(k, n=1):
        out["strata"][k] = out["strata"].get(k, 0) + n

    if kind == "enc":
        ans = drv.results([{"op": "jsontext.encode", "text": t} for t in items])
        for t, a in zip(items, ans):
            out["n"] += 1
            real = json.dumps(t, ensure_ascii=False)
            if not (a == real == json.encoder.py_encode_basestring(t)) and len(out["ties"]) < 10:
                out["ties"].append({"what": "JSON string literal: model encodeString and json.dumps(ensure_ascii=False) differ", "text": t, "model": a, "real": real})
            if json.loads(real) != t and len(out["ties"]) < 10:
                out["ties"].append({"what": "json.loads(json.dumps(s)) != s on the real json module", "text": t})
            # the document writer uses the same literal for keys and values
            doc = json.dumps({"sheets": {t: [{t: t}]}}, ensure_ascii=False, indent=2)
            if doc.count(real) != 3 and len(out["ties"]) < 10:
                out["ties"].append({"what": "json.dumps(indent=2) does not write keys and values with the modelled literal", "text": t, "doc": doc})
            count("json_enc:" + ("escapes" if real != "\"" + t + "\"" else "verbatim"))
        out["keys"] = ["jsonenc:" + t for t in items]
    else:
        ans = drv.results([{"op": "jsontext.scan", "text": t} for t in items])
        for t, a in zip(items, ans):
            out["n"] += 1
            real = real_json_scan(t)
            if a == {"err": "loneSurrogate"}:
                # outside `Char`: the real scanner goes on with a lone surrogate in its result
                count("json_scan:lone_surrogate_unrepresentable")
                if "ok" in real and not has_surrogate(real["ok"][0]) and len(out["ties"]) < 10:
                    out["ties"].append({"what": "JSON scanstring: model says lone surrogate, real result has none", "text": t, "real": real})
                continue
            count("json_scan:" + (real.get("err") or "ok"))
            if a != real and len(out["ties"]) < 10:
                out["ties"].append({"what": "JSON scanstring: model and real differ", "text": t, "model": a, "real": real})
        out["keys"] = ["jsonscan:" + t for t in items]
    return out


def json_string_tasks(ck: core.Check, quick: bool):
    import itertools

    enc = ["".join(q) for k in range(0, 3 if quick else 4) for q in itertools.product(JSON_ENC_ALPHA, repeat=k)]
    enc += [gen_cell(ck.rng) for _ in range(500 if quick else 5000)]
    enc += ["".join(chr(i) for i in range(0, 0x30)), "".join(chr(i) for i in range(0x7f, 0xa1)), "\ud7ff\ue000\ufeff\uffff\U00010000\U0010ffff"]
    scan = ["\"" + "".join(q) for k in range(0, 5 if quick else 6) for q in itertools.product(JSON_SCAN_ALPHA, repeat=k)]
    for _ in range(3000 if quick else 30000):
        scan.append("\"" + "".join(ck.rng.choice(JSON_SCAN_FRAGMENTS) for _ in range(ck.rng.randint(0, 6))) + ck.rng.choice(["\"", "\"", "\"tail", "", "\" "]))
    return [("enc", sh) for sh in core.shard(enc, par.NPROC)] + [("scan", sh) for sh in core.shard(scan, par.NPROC)]


# --------------------------------------------------------------------------- JSON documents: model json.loads / JSONSheetReader vs real

JSON_DOC_ALPHA = ["{", "}", "[", "]", "\"", ":", ",", " ", "a", "\n"]
JSON_ERR_NEEDLES = {"expectingValue": "Expecting value", "expectingPropertyName": "Expecting property name", "expectingColon": "Expecting ':'", "expectingComma": "Expecting ','",
                    "extraData": "Extra data", "unterminated": "Unterminated string", "controlChar": "Invalid control", "invalidEscape": "Invalid \\escape",
                    "invalidUnicodeEscape": "Invalid \\uXXXX", "bom": "BOM"}


def jv_enc(v):
    if isinstance(v, str):
        return v
    if isinstance(v, list):
        return {"a": [jv_enc(x) for x in v]}
    if isinstance(v, dict):
        return {"o": [[k, jv_enc(x)] for k, x in v.items()]}
    raise ValueError("unsupported")


def real_json_loads(t: str):
    try:
        v = json.loads(t)
    except json.JSONDecodeError as e:
        return {"err": str(e)}
    try:
        return {"ok": jv_enc(v)}
    except ValueError:
        return {"err": "unsupported"}


def json_loads_agree(model, real) -> bool:
    if "ok" in real:
        return model == real
    if not isinstance(model, dict) or "err" not in model:
        return False
    return model["err"] == real["err"] or JSON_ERR_NEEDLES.get(model["err"], "\x00") in real["err"]


def json_doc_text_worker(texts):
    drv = core.Driver()
    out = {"n": 0, "ties": [], "viol": [], "strata": {}, "keys": []}
    ans = drv.results([{"op": "jsontext.loads", "text": t} for t in texts])
    for t, a in zip(texts, ans):
        out["n"] += 1
        real = real_json_loads(t)
        k = "json_doc_text:" + ("ok" if "ok" in real else "error")
        out["strata"][k] = out["strata"].get(k, 0) + 1
        if a == {"err": "loneSurrogate"} or (a == {"err": "unsupported"} and "ok" not in real):
            continue        # outside the model (a later syntax error may win on the real side)
        if not json_loads_agree(a, real) and len(out["ties"]) < 10:
            out["ties"].append({"what": "json.loads: model and real differ", "text": t, "model": a, "real": real})
    out["keys"] = ["jsondoc:" + t for t in texts]
    return out


def real_json_reader_bytes(data: bytes, tmp: str, idx: int):
    p = os.path.join(tmp, "b%d.json" % idx)
    with open(p, "wb") as f:
        f.write(data)
    got = read_sheets("json", p)
    os.remove(p)
    if "__exc__" in got:
        m = got["__exc__"]
        if m.startswith("JSONDecodeError"):
            for name, needle in JSON_ERR_NEEDLES.items():
                if needle in m:
                    return {"__err__": name}
            return {"__err__": m}
        if m.startswith("UnicodeDecodeError"):
            return {"__err__": "decode"}
        if m.startswith("InvalidDimensions"):
            return {"__err__": "invalidDimensions"}
        if m.split(":")[0] in ("KeyError", "AttributeError", "TypeError", "UnsupportedFormat", "IndexError"):
            return {"__err__": "shape"}
        return {"__err__": m}
    return got


def gen_json_doc_variant(rng: random.Random):
    """a workbook as JSON text in a style `to_json` never writes, or damaged"""
    sheets = [gen_sheet(rng, "s%d" % i, min_rows=rng.choice([0, 1, 1])) for i in range(rng.randint(0, 3))]
    for s in sheets:
        if rng.random() < 0.3:
            for r in s["rows"]:
                for j in range(len(r)):
                    if rng.random() < 0.3:
                        r[j] = gen_csv_cell(rng)
    book = {"meta": {"version": "0.1.0"}, "sheets": {}}
    for s in sheets:
        q = rng.random()
        if q < 0.7:
            book["sheets"][s["name"]] = [dict(zip(s["headers"], r)) for r in s["rows"]]
        elif q < 0.85:
            book["sheets"][s["name"]] = [list(r) for r in s["rows"]]
        else:
            rows = [dict(zip(s["headers"], r)) for r in s["rows"]]
            if rows:
                rows[rng.randrange(len(rows))].pop(s["headers"][0], None)      # ragged
            book["sheets"][s["name"]] = rows
    if rng.random() < 0.15:
        book = {k: book[k] for k in ("sheets", "meta")}
    if rng.random() < 0.05:
        del book["meta"]
    style = rng.randrange(8)
    if style == 0:
        text = json.dumps(book, ensure_ascii=False, separators=(",", ":"))
    elif style == 1:
        text = json.dumps(book, ensure_ascii=True, indent=4)
    elif style == 2:
        text = json.dumps(book, ensure_ascii=False, indent="\t")
    elif style == 3:
        text = json.dumps(book, ensure_ascii=False, indent=2).replace("\n", "\r\n")
    elif style == 4:
        text = "  \n" + json.dumps(book, ensure_ascii=False) + "\n\n"
    else:
        text = json.dumps(book, ensure_ascii=False, indent=2)
    k = rng.randrange(12)
    if k == 0 and text:
        i = rng.randrange(len(text))
        text = text[:i] + text[i + 1:]
    elif k == 1:
        i = rng.randint(0, len(text))
        text = text[:i] + rng.choice([",", "}", "]", "\"", " ", "\n", "{", ":", "x", "\\"]) + text[i:]
    elif k == 2:
        text = "\ufeff" + text
    elif k == 3:
        text = text + rng.choice(["x", "{}", ",", " \n "])
    elif k == 4:
        text = text.replace("\"sheets\"", "\"Sheets\"", 1)
    elif k == 5 and "\"s0\"" in text:
        text = text.replace("\"s0\"", "\"s1\"", 1)           # duplicate sheet name in the TEXT: the later one wins, at the first position
    data = text.encode("utf-8")
    if rng.random() < 0.05 and data:
        i = rng.randrange(len(data))
        data = data[:i] + bytes([rng.choice([0x80, 0xC0, 0xFF, 0xED])]) + data[i + 1:]
    return data


def json_doc_file_worker(seeds):
    tmp = tempfile.mkdtemp(prefix="c14jd_")
    drv = core.Driver()
    out = {"n": 0, "ties": [], "viol": [], "strata": {}, "keys": []}
    try:
        datas = [gen_json_doc_variant(random.Random(sd)) for sd in seeds]
        ans = drv.results([{"op": "jsontext.loadbook", "bytes": list(d)} for d in datas])
        for i, (d, a) in enumerate(zip(datas, ans)):
            out["n"] += 1
            real = real_json_reader_bytes(d, tmp, i)
            mt = model_book(a)
            k = "json_doc_file:" + (real["__err__"] if "__err__" in real and real["__err__"] in ("shape", "decode", "invalidDimensions") else "syntax_error" if "__err__" in real else "read_ok")
            out["strata"][k] = out["strata"].get(k, 0) + 1
            if mt in ({"__err__": "unsupported"}, {"__err__": "loneSurrogate"}):
                continue
            if mt != real and len(out["ties"]) < 10:
                out["ties"].append({"what": "JSONSheetReader on a foreign / damaged JSON file: model and real differ", "text": d.decode("utf-8", "backslashreplace")[:800], "model": str(mt)[:400], "real": str(real)[:400]})
            out["keys"].append("jsondocfile:" + d.hex()[:200] + str(len(d)))
    finally:
        shutil.rmtree(tmp, ignore_errors=True)
    return out


# --------------------------------------------------------------------------- worker: compile


def grid_of_csv_text(text: str):
    recs = list(csv.reader(io.StringIO(text, newline="")))
    return recs[0], recs[1:]


DECOR = ["a,b", "say \"hi\"", "line one\nline two", "Ünïcode 日本 \U0001F600", "=1+1", "'quoted", " padded ", "007", "TRUE", "1.50", "tab\there", "x & <y>",
         "cafe\u0301 \u212b \u2126", "\u1112\u1161\u11ab \ufb01 x\u00b2", "a\u037e b"]


def gen_compilable(rng: random.Random) -> list[dict]:
    """a compilable workbook as list of sheets (all cells text)"""
    from ..gen import sheets as gsheets
    from ..gen import sugar as gsugar

    if rng.random() < 0.5:
        csvs, _ = gsugar.gen_index_workbook(rng)
        sheets = []
        for name, text in csvs.items():
            h, rows = grid_of_csv_text(text)
            sheets.append({"name": name, "headers": h, "rows": rows})
    else:
        nflows = rng.randint(1, 3)
        index_h = ["type", "sheet_name", "data_sheet", "data_row_id", "new_name", "template_arguments", "data_model", "status"]
        names = ["flow%d" % k for k in range(nflows)]
        if rng.random() < 0.35:
            # flow sheets whose NAME is not in a Unicode normal form, referenced from the index by the very same string
            taken = {norm_key("content_index"), norm_key("unused extra")}
            for k in range(nflows):
                while True:
                    x = rng.choice(NAME_NOT_NORMAL)
                    nm = rng.choice([x + "_flow", "flow " + x, x, "m%d %s" % (k, x), rng.choice(COMPOSED_TWINS) + " " + x])
                    if norm_key(nm) not in taken:
                        taken.add(norm_key(nm))
                        names[k] = nm
                        break
        sheets = [{"name": "content_index", "headers": index_h, "rows": [["create_flow", names[k], "", "", "", "", "", ""] for k in range(nflows)]}]
        for k in range(nflows):
            rows = gsheets.gen_core_sheet(rng, rng.randint(1, 10))
            used = [h for h in gsheets.HEADERS if any(r.get(h, "") for r in rows)]
            for must in ("row_id", "type", "from"):
                if must not in used:
                    used.append(must)
            hs = [h for h in gsheets.HEADERS if h in used]
            sheets.append({"name": names[k], "headers": hs, "rows": [[r.get(h, "") for h in hs] for r in rows]})
    # decorate message texts of send_message rows with format-hostile text
    for s in sheets:
        if "type" in s["headers"] and "message_text" in s["headers"] and s["name"] != "content_index":
            ti, mi = s["headers"].index("type"), s["headers"].index("message_text")
            for r in s["rows"]:
                if r[ti] == "send_message" and "{" not in r[mi] and rng.random() < 0.5:
                    r[mi] = (r[mi] + " " + rng.choice(DECOR)).strip(" ") if rng.random() < 0.5 else rng.choice(DECOR)
    # an extra sheet nobody references
    if rng.random() < 0.5:
        sheets.append(gen_sheet(rng, "unused extra"))
    sheets = [s for s in sheets if s["rows"]]      # F-C14-b: no header-only sheet in the main stream
    # all-empty rows in index / flow / data / unreferenced sheets (own rng: the rest of the stream is not shifted)
    sheets, _ = sprinkle_blank_rows(random.Random(rng.getrandbits(32)), sheets, 0.3, 0.5)
    rng.shuffle(sheets)
    return sheets


def compile_real(fmt: str, paths: list[str]):
    from rpft import converters

    from ..flows import LogCapture, rename_uuids_by_first_occurrence

    with LogCapture() as cap:
        try:
            doc = converters.create_flows(list(paths), None, fmt)
        except BaseException as e:  # noqa: BLE001
            if isinstance(e, (KeyboardInterrupt, SystemExit)):
                raise
            return {"exc": f"{type(e).__name__}: {e}"[:300]}
    if cap.errors():
        return {"errors": cap.errors()[:3]}
    canon, mapping = rename_uuids_by_first_occurrence(doc)
    return {"ok": json.dumps(canon, sort_keys=True, ensure_ascii=False), "uuids": len(mapping), "flows": len(doc.get("flows", [])),
            "nodes": sum(len(f.get("nodes", [])) for f in doc.get("flows", []))}


def compile_worker(seeds):
    tmp = tempfile.mkdtemp(prefix="c14c_")
    out = {"n": 0, "viol": [], "strata": {}, "keys": [], "sample": None}

    def count(k, n=1):
        out["strata"][k] = out["strata"].get(k, 0) + n

    try:
        for seed in seeds:
            rng = random.Random(seed)
            sheets = gen_compilable(rng)
            btags = blank_row_strata(sheets)
            for t in btags:
                count("compile_" + t)
            count("compile_workbook_with_all_empty_rows" if btags else "compile_workbook_without_all_empty_rows")
            style = style_of(rng)
            base = os.path.join(tmp, "w%d" % out["n"])
            out["n"] += 1
            m = materialise(base, sheets, style)
            out["keys"].append(json.dumps(sheets, ensure_ascii=False, sort_keys=True))
            count("compile_sheet_name_not_nfc", sum(1 for s in sheets if not _is_nf("NFC", s["name"])))
            count("compile_sheet_name_nfc_not_nfkc", sum(1 for s in sheets if _is_nf("NFC", s["name"]) and not _is_nf("NFKC", s["name"])))
            res = {}
            for label in FORMATS_ALL:
                if label not in m["paths"]:
                    continue
                fmt, path = m["paths"][label]
                res[label] = {"exc": path} if fmt == "__exc__" else compile_real(fmt, [path])
            ref = res["csv"]
            if "ok" in ref:
                count("compiled_ok")
                count("flows", ref["flows"])
                count("nodes", ref["nodes"])
                if out["sample"] is None:
                    out["sample"] = {"compiled": [s["name"] for s in sheets], "flows": ref["flows"], "nodes": ref["nodes"]}
            else:
                count("source_compile_rejected")
            for label in [l for l in FORMATS_ALL[1:] if l in res]:
                a = {k: v for k, v in ref.items() if k in ("ok", "exc", "errors")}
                b = {k: v for k, v in res[label].items() if k in ("ok", "exc", "errors")}
                if a != b and len(out["viol"]) < 5:
                    what = ("convert followed by compile differs from compiling the source" if label == "json<csv"
                            else f"compiling the {label} workbook differs from compiling the CSV workbook")
                    out["viol"].append({"what": what, "workbook": sheets, "style": style, "format": label, "seed": seed,
                                        "csv": summarise(a), label: summarise(b), "first_difference": doc_diff(a, b)})
            # CompositeSheetReader: the same sheets split over two inputs of the same format
            if len(sheets) >= 2 and rng.random() < 0.35:
                k = rng.randint(1, len(sheets) - 1)
                ma = materialise(base + "_a", sheets[:k], style)
                mb = materialise(base + "_b", sheets[k:], style)
                count("split_over_two_inputs")
                a = {k_: v for k_, v in ref.items() if k_ in ("ok", "exc", "errors")}
                for label in FORMATS:
                    (fa, pa), (fb, pb) = ma["paths"][label], mb["paths"][label]
                    r2 = {"exc": "convert failed"} if "__exc__" in (fa, fb) else compile_real(fa, [pa, pb])
                    b = {k_: v for k_, v in r2.items() if k_ in ("ok", "exc", "errors")}
                    if a != b and len(out["viol"]) < 5:
                        out["viol"].append({"what": f"compiling the workbook split over two {label} inputs differs from compiling the single CSV workbook",
                                            "workbook": sheets, "split_at": k, "style": style, "format": label, "seed": seed,
                                            "csv": summarise(a), "split": summarise(b), "first_difference": doc_diff(a, b)})
            # json<xlsx vs xlsx directly (convert→compile = compile, for the XLSX source)
            a = {k: v for k, v in res["xlsx"].items() if k in ("ok", "exc", "errors")}
            b = {k: v for k, v in res["json<xlsx"].items() if k in ("ok", "exc", "errors")}
            if a != b and len(out["viol"]) < 5:
                out["viol"].append({"what": "convert followed by compile differs from compiling the source (XLSX)", "workbook": sheets, "style": style,
                                    "format": "json<xlsx", "seed": seed, "xlsx": summarise(a), "json<xlsx": summarise(b), "first_difference": doc_diff(a, b)})
    finally:
        shutil.rmtree(tmp, ignore_errors=True)
    return out


def summarise(r):
    if "ok" in r:
        return {"ok": r["ok"][:200] + "…"}
    return r


def doc_diff(a, b):
    if "ok" not in a or "ok" not in b:
        return None

    def walk(x, y, path):
        if type(x) is not type(y):
            return {"at": path, "a": x, "b": y}
        if isinstance(x, dict):
            for k in sorted(set(x) | set(y)):
                if k not in x or k not in y:
                    return {"at": path + "/" + k, "a": x.get(k, "<absent>"), "b": y.get(k, "<absent>")}
                d = walk(x[k], y[k], path + "/" + k)
                if d:
                    return d
            return None
        if isinstance(x, list):
            if len(x) != len(y):
                return {"at": path, "len_a": len(x), "len_b": len(y)}
            for i, (p, q) in enumerate(zip(x, y)):
                d = walk(p, q, f"{path}/{i}")
                if d:
                    return d
            return None
        return None if x == y else {"at": path, "a": x, "b": y}

    return walk(json.loads(a["ok"]), json.loads(b["ok"]), "")


# --------------------------------------------------------------------------- known findings (deterministic streams)

INDEX_H = ["type", "sheet_name", "data_sheet", "data_row_id", "new_name", "template_arguments", "data_model", "status"]
FLOW_H = ["row_id", "type", "from", "message_text"]


def wb_blank_row():
    return [
        {"name": "content_index", "headers": INDEX_H, "rows": [["create_flow", "main", "", "", "", "", "", ""]]},
        {"name": "main", "headers": FLOW_H, "rows": [["1", "send_message", "start", "hi"], ["", "", "", ""], ["2", "send_message", "1", "there"]]},
    ]


def wbs_blank_rows():
    """fixed workbooks with all-empty rows (F-C14-a, fixed: a regular class now — these are its deterministic part):
    flow sheet / index sheet / data sheet; first, between, last, several in a row, everywhere at once"""
    e4, e8, e2 = [""] * 4, [""] * 8, [""] * 2
    r1, r2 = ["1", "send_message", "start", "hi"], ["2", "send_message", "1", "there"]
    idx = ["create_flow", "main", "", "", "", "", "", ""]
    out = {"flow:between": wb_blank_row()}
    for tag, rows in (("flow:first", [e4, r1, r2]), ("flow:last", [r1, r2, e4]), ("flow:run", [r1, e4, e4, e4, r2]), ("flow:everywhere", [e4, e4, r1, e4, r2, e4, e4])):
        out[tag] = [{"name": "content_index", "headers": INDEX_H, "rows": [idx]}, {"name": "main", "headers": FLOW_H, "rows": rows}]
    out["index:everywhere"] = [{"name": "content_index", "headers": INDEX_H, "rows": [e8, idx, e8, e8]}, {"name": "main", "headers": FLOW_H, "rows": [r1, r2]}]
    out["data:everywhere"] = [
        {"name": "content_index", "headers": INDEX_H, "rows": [["data_sheet", "dat", "", "", "", "", "", ""], e8,
                                                               ["create_flow", "tpl", "dat", "", "", "", "", ""]]},
        {"name": "dat", "headers": ["ID", "word"], "rows": [e2, ["a", "alpha"], e2, e2, ["b", "beta"], e2]},
        {"name": "tpl", "headers": FLOW_H, "rows": [["1", "send_message", "start", "say {{word}}"], e4]},
    ]
    return out


def wb_header_only():
    return [
        {"name": "content_index", "headers": INDEX_H, "rows": [["data_sheet", "dat", "", "", "", "", "", ""], ["create_flow", "main", "", "", "", "", "", ""]]},
        {"name": "dat", "headers": ["ID", "word"], "rows": []},
        {"name": "main", "headers": FLOW_H, "rows": [["1", "send_message", "start", "hi"]]},
    ]


def wb_cr():
    return [
        {"name": "content_index", "headers": INDEX_H, "rows": [["create_flow", "main", "", "", "", "", "", ""]]},
        {"name": "main", "headers": FLOW_H, "rows": [["1", "send_message", "start", "one\r\ntwo"], ["2", "send_message", "1", "three\rfour"]]},
    ]


def norm_cr(s: str) -> str:
    return s.replace("\r\n", "\n").replace("\r", "\n")


def map_cells(sheets, f):
    return [{"name": s["name"], "headers": [f(h) for h in s["headers"]], "rows": [[f(c) for c in r] for r in s["rows"]]} for s in sheets]


def known_streams(ck: core.Check, tmp: str):
    """each open finding regenerated deterministically; reported only when trigger AND pattern match
    AND the repaired input behaves (counterfactual).  Anything else on these inputs is a violation."""
    style = {"lt": "\r\n", "quote_all": False, "skip_empty": False}

    def run_wb(tag, sheets, formats=FORMATS):
        m = materialise(os.path.join(tmp, tag), sheets, style)
        reads, comps = {}, {}
        for label in formats:
            fmt, path = m["paths"][label]
            reads[label] = {"__exc__": path} if fmt == "__exc__" else read_sheets(fmt, path)
            comps[label] = {"exc": path} if fmt == "__exc__" else compile_real(fmt, [path])
        return reads, comps

    def same_compile(comps):
        vals = [json.dumps({k: v for k, v in c.items() if k in ("ok", "exc", "errors")}, sort_keys=True) for c in comps.values()]
        return len(set(vals)) == 1

    # ---- F-C14-a (fixed): all-empty rows are omitted by EVERY reader — a regular class of the generators (read_worker,
    # compile_worker, csv_file_worker, cli_worker); here its deterministic part.  C: every format delivers the sheets
    # without their all-empty rows, and every format compiles — to the same flows as the workbook without those rows.
    for tag, wb in wbs_blank_rows().items():
        clean = omit_blank_rows(wb)
        exp_dropped = expect_of(clean)
        reads, comps = run_wb("fa_" + tag.replace(":", "_"), wb, FORMATS_ALL)
        ck.case("blank_rows:" + tag, sample=None)
        ck.count("fixed_workbooks_with_all_empty_rows")
        bad = {l: first_diff(exp_dropped, reads[l]) for l in FORMATS_ALL if first_diff(exp_dropped, reads[l]) is not None}
        if bad:
            ck.violation("all-empty rows: a reader does not deliver the sheet without them (the readers disagree on all-empty rows: F-C14-a is back)",
                         {"workbook": wb, "style": style, "format": sorted(bad)[0], "diff": bad, "expected": "every format: the sheets without their all-empty rows"})
            continue
        if not same_compile(comps) or "ok" not in comps["csv"]:
            ck.violation("all-empty rows: the formats do not compile the workbook alike",
                         {"workbook": wb, "style": style, "compile": {l: summarise(c) for l, c in comps.items()}})
            continue
        r2, c2 = run_wb("fa2_" + tag.replace(":", "_"), clean, FORMATS_ALL)
        if not same_compile(c2) or c2["csv"].get("ok") != comps["csv"].get("ok"):
            ck.violation("all-empty rows: the workbook compiles to other flows than the same workbook without them",
                         {"workbook": wb, "style": style, "with": summarise(comps["csv"]), "without": summarise(c2["csv"])})

    # ---- F-C14-b: header-only sheet through convert
    wb = wb_header_only()
    exp = expect_of(wb)
    exp_lost = {n: ({"headers": None, "rows": []} if not t["rows"] else t) for n, t in exp.items()}
    reads, comps = run_wb("fb", wb)
    ck.case("known:F-C14-b", sample=None)
    if all(first_diff(exp, reads[l]) is None for l in FORMATS) and same_compile(comps):
        pass
    elif (first_diff(exp, reads["csv"]) is None and first_diff(exp, reads["xlsx"]) is None
          and reads["json<csv"] == exp_lost and reads["json<xlsx"] == exp_lost):
        wb2 = [{**s, "rows": s["rows"] or [["r1", "alpha"]]} for s in wb]
        r2, c2 = run_wb("fb2", wb2)
        if all(first_diff(expect_of(wb2), r2[l]) is None for l in FORMATS) and same_compile(c2) and "ok" in c2["csv"]:
            ck.known("F-C14-b", "a sheet with headers and no rows is written by convert as [] and read back without headers: compiling the converted workbook crashes where the source compiles",
                     {"sheet": wb[1], "csv_compile": summarise(comps["csv"]), "json_compile": summarise(comps["json<csv"])})
        else:
            ck.violation("F-C14-b stream: formats disagree even when the sheet has a row", {"workbook": wb2, "reads": r2})
    else:
        ck.violation("header-only sheet: readers disagree in a way that is not the known finding F-C14-b", {"workbook": wb, "reads": reads})

    # ---- F-C14-c: CR / CRLF inside a CSV cell
    wb = wb_cr()
    exp = expect_of(wb)
    exp_norm = expect_of(map_cells(wb, norm_cr))
    reads, comps = run_wb("fc", wb)
    ck.case("known:F-C14-c", sample=None)
    # the XLSX side is written by openpyxl, which stores CR unescaped (XML parsers then read LF):
    # library artefact of the harness writer, so only "exact or CR-normalised" is required there
    xl_ok = first_diff(exp, reads["xlsx"]) is None or first_diff(exp_norm, reads["xlsx"]) is None
    if first_diff(exp, reads["csv"]) is None and first_diff(exp, reads["json<csv"]) is None and xl_ok:
        pass
    elif first_diff(exp_norm, reads["csv"]) is None and first_diff(exp_norm, reads["json<csv"]) is None and xl_ok:
        # counterfactual 1: the same bytes read with newline="" are exact (so the loss is load_csv's open())
        import tablib

        with open(os.path.join(tmp, "fc", "csv", "main.csv"), "r", encoding="utf-8", newline="") as f:
            t = tablib.import_set(f, format="csv")
        exact = [list(t[i]) for i in range(t.height)] == wb[1]["rows"]
        # counterfactual 2: LF-only content is read exactly by every format
        r2, c2 = run_wb("fc2", map_cells(wb, norm_cr))
        if exact and all(first_diff(exp_norm, r2[l]) is None for l in FORMATS) and same_compile(c2):
            ck.known("F-C14-c", "the CSV reader turns CR and CRLF inside a cell into LF (load_csv opens the file without newline=''); the JSON reader keeps them",
                     {"written": wb[1]["rows"][0][3], "read": reads["csv"]["main"]["rows"][0][3]})
        else:
            ck.violation("F-C14-c stream: CR normalisation is not explained by the text-mode open", {"workbook": wb, "reads": reads})
    else:
        ck.violation("cells with CR: readers differ from the written sheet beyond CR→LF (F-C14-c)", {"workbook": wb, "reads": reads})


# --------------------------------------------------------------------------- witnesses of Props/C14 on the real code


def witness_stream(ck: core.Check, tmp: str):
    """the kernel-checked negative witnesses, replayed on the real code: the model's answer must be
    the real answer (tie); where the witness lies inside the property's domain the failure is a
    known finding (handled in known_streams), otherwise it documents a hypothesis."""
    drv = core.Driver()
    W = {
        "wHeaderOnly": {"name": "s", "headers": ["a", "b"], "rows": []},
        "wDupHeaders": {"name": "s", "headers": ["a", "a"], "rows": [["1", "2"]]},
        "wBlankRow": {"name": "s", "headers": ["a", "b"], "rows": [["1", "2"], ["", ""], ["3", "4"]]},
        "wEmptyLastHeader": {"name": "s", "headers": ["a", ""], "rows": [["1", "2"]]},
        "wEmptyFirstHeader": {"name": "s", "headers": ["", "b"], "rows": [["1", "2"]]},
    }
    style = {"lt": "\r\n", "quote_all": False, "skip_empty": False}
    for wname, s in W.items():
        ans = drv.results([{"op": "sheets.all", **s}])[0]
        base = os.path.join(tmp, "wit_" + wname)
        os.makedirs(base)
        real = {}
        if len(set(s["headers"])) == len(s["headers"]):
            write_csv_folder(os.path.join(base, "csv"), [s], style)
            real["csv"] = read_sheets("csv", os.path.join(base, "csv")).get("s")
            write_xlsx(os.path.join(base, "b.xlsx"), [s], style)
            real["xlsx"] = read_sheets("xlsx", os.path.join(base, "b.xlsx")).get("s")
            write_json_via_convert(os.path.join(base, "csv"), "csv", os.path.join(base, "b.json"))
            real["json"] = read_sheets("json", os.path.join(base, "b.json")).get("s")
        else:
            # duplicate headers: go through table.dict directly
            c = real_table_dict(s)
            if c != ans["tojson"]:
                ck.tie_break("witness " + wname + ": table.dict differs from the model", {"model": ans["tojson"], "real": c})
            import tablib

            ds = tablib.Dataset()
            ds.headers = s["headers"]
            for r in s["rows"]:
                ds.append(r)
            real["json"] = real_readjson(ds.dict, base, 0)
        for k, v in real.items():
            mt = model_table(ans[k])
            ck.case(f"witness:{wname}:{k}")
            if mt != v:
                ck.tie_break(f"witness {wname}: model {k} reader and real reader differ", {"sheet": s, "model": mt, "real": v})
        ck.count("witnesses_replayed")


# --------------------------------------------------------------------------- typed XLSX cells (side stream, informational)


def typed_stream(ck: core.Check, tmp: str):
    """cells a person TYPED as numbers / booleans / dates (not text): outside the property ("text
    sheets"), recorded so the reader of the evidence sees what `str(e)` makes of them; tied to the
    model through the cell kinds int / bool / other."""
    import datetime

    vals = [1, 1.0, 1.5, 1.50, True, False, 1e5, 0.1 + 0.2, datetime.datetime(2020, 1, 31), datetime.time(9, 30), 10 ** 20, 7, "text", None, "007"]
    typed = ["1", "1.0", "1.5", "1.50", "TRUE", "FALSE", "1e5", "=0.1+0.2 (cached value)", "2020-01-31", "09:30", "100000000000000000000", "7", "text", "", "'007 (text)"]
    sheets = [{"name": "typed", "headers": ["h%d" % i for i in range(len(vals))], "rows": [vals, [None] * (len(vals) - 1) + ["x"]]}]
    p = os.path.join(tmp, "typed.xlsx")
    write_xlsx(p, sheets, {"skip_empty": True}, typed=True)
    got = read_sheets("xlsx", p)
    if "__exc__" in got or "typed" not in got:
        ck.notes.append("typed-cell side stream: XLSX reader did not return the sheet: " + str(got)[:200])
        return
    row = got["typed"]["rows"][0]
    ck.extra["xlsx_typed_cells_read_as"] = {t: r for t, r in zip(typed, row)}
    # tie through raw tablib values
    import tablib

    with open(p, "rb") as f:
        ds = tablib.Databook().load(f.read(), "xlsx").sheets()[0]
    raw_rows = [list(ds[i]) for i in range(ds.height)]
    drv = core.Driver()
    ans = drv.results([{"op": "sheets.sanitize", "headers": list(ds.headers), "rows": [[xval_json(v) for v in r] for r in raw_rows]}])[0]
    ck.case("typed-cells")
    if model_table(ans) != got["typed"]:
        ck.tie_break("typed cells: model _sanitize and real XLSX reader differ", {"model": model_table(ans), "real": got["typed"]})
    if not all(type(c) is str for r in got["typed"]["rows"] for c in r):
        ck.violation("XLSX reader returned a non-string cell", {"row": [repr(c) for c in row]})


# --------------------------------------------------------------------------- CLI (cli.py anchors), a few subprocess runs


def cli_worker(seeds):
    """`rpft convert` + `rpft create` as real subprocesses in a scratch cwd (cli.py writes errors.log)"""
    tmp = tempfile.mkdtemp(prefix="c14cli_")
    out = {"n": 0, "viol": [], "strata": {}, "keys": []}
    from ..flows import rename_uuids_by_first_occurrence

    env = dict(os.environ)

    def cli(*args):
        return subprocess.run([sys.executable, "-c", "import warnings; warnings.filterwarnings('ignore'); from rpft.cli import main; main()", *args],
                              cwd=tmp, env=env, stdout=subprocess.PIPE, stderr=subprocess.PIPE, timeout=300)

    try:
        for seed in seeds:
            rng = random.Random(seed)
            sheets = gen_compilable(rng)
            style = style_of(rng)
            base = os.path.join(tmp, "w%d" % out["n"])
            out["n"] += 1
            os.makedirs(base)
            csv_dir, xlsx = os.path.join(base, "csv"), os.path.join(base, "b.xlsx")
            write_csv_folder(csv_dir, sheets, style)
            write_xlsx(xlsx, sheets, style)
            out["keys"].append("cli:" + json.dumps(sheets, ensure_ascii=False, sort_keys=True))
            results = {}
            for label, fmt, src in (("csv", "csv", csv_dir), ("xlsx", "xlsx", xlsx)):
                j = os.path.join(base, label + ".json")
                p = cli("convert", "-f", fmt, src, j)
                if p.returncode != 0:
                    results["json<" + label] = {"convert_exit": p.returncode, "stderr": p.stderr.decode()[-300:]}
                    continue
                for lab2, fmt2, src2 in ((label, fmt, src), ("json<" + label, "json", j)):
                    o = os.path.join(base, lab2.replace("<", "_") + "_flows.json")
                    p = cli("create_flows", "-f", fmt2, "-o", o, "--", src2)
                    if p.returncode != 0 or not os.path.exists(o):
                        results[lab2] = {"exit": p.returncode, "stderr": p.stderr.decode()[-300:]}
                    else:
                        with open(o, encoding="utf-8") as f:
                            canon, _ = rename_uuids_by_first_occurrence(json.load(f))
                        results[lab2] = {"ok": json.dumps(canon, sort_keys=True, ensure_ascii=False)}
            ref = results.get("csv")
            out["strata"]["cli_ok" if ref and "ok" in ref else "cli_source_rejected"] = out["strata"].get("cli_ok" if ref and "ok" in ref else "cli_source_rejected", 0) + 1
            for lab, r in results.items():
                same = (("ok" in r and "ok" in ref and r["ok"] == ref["ok"]) or ("ok" not in r and "ok" not in ref and r.get("exit") == ref.get("exit")))
                if not same and len(out["viol"]) < 3:
                    out["viol"].append({"what": f"CLI: `create_flows` from {lab} differs from `create_flows` from csv", "workbook": sheets, "style": style, "format": lab,
                                        "seed": seed, "csv": summarise(ref), lab: summarise(r), "first_difference": doc_diff(ref, r)})
    finally:
        shutil.rmtree(tmp, ignore_errors=True)
    return out


# --------------------------------------------------------------------------- run


def safe(x):
    """payloads must be writable as UTF-8 even when broken code produced lone surrogates"""
    if isinstance(x, str):
        return x.encode("utf-8", "backslashreplace").decode("utf-8")
    if isinstance(x, dict):
        return {safe(k) if isinstance(k, str) else k: safe(v) for k, v in x.items()}
    if isinstance(x, (list, tuple)):
        return [safe(v) for v in x]
    return x


def fold(ck: core.Check, results, kind: str):
    for r in results:
        ck.count(kind, r["n"])
        ck.evaluations += r["n"]
        ck.nontrivial.update(core.hashlib.sha1(k.encode("utf-8", "surrogatepass")).hexdigest() for k in r["keys"])
        for k, v in r["strata"].items():
            ck.count(k, v)
        for t in r.get("ties", []):
            ck.tie_break(t["what"], safe(t))
        for v in r["viol"]:
            ck.violation(v["what"], safe(v))
        if r.get("sample") is not None and len(ck.samples) < 6:
            ck.samples.append(r["sample"])
        if "sheets" in r:
            ck.count("sheets_total", r["sheets"])
            ck.count("cells_total", r["cells"])


def run(ck: core.Check):
    ck.lean = core.lean_step("C14", thorough=(ck.tier == "thorough"))
    ck.rule = (
        "read stream: seeded workbooks of 1-6 sheets, 1-15 rows, 1-30 unique non-empty headers, cells from a pool of empty / plain / "
        "format-hostile text (commas, quotes, LF, | ; \\, leading = ', numeric- and boolean-looking, edge blanks, non-ASCII, astral, text that is not in Unicode "
        "NFC / NFKC form: decomposed accents, conjoining jamo, singletons such as U+212B U+2126 U+037E, compatibility characters — in sheet names, headers "
        "and cells; two sheet names of one workbook never differ only in case or normalisation, two headers of one sheet may; in ~30% of the workbooks some "
        "sheets get all-empty rows — at the start / in the middle / at the end / several in a row / scattered / around every row — and sometimes a row of "
        "blanks, which is NOT empty; every sheet keeps a non-empty row), each written "
        "as CSV folder (CRLF or LF records, minimal or full quoting), XLSX (text cells; empty cell absent or empty text) and JSON by the real "
        "convert from both; compile stream: content-index workbooks (templates, data sheets, loops) and core flow sheets with decorated message "
        "texts, ~30% of them with all-empty rows in index / flow / data sheets, plus 7 fixed workbooks with such rows; direct stream: grids with None / typed cells / trailing and inner None headers fed to _sanitize, ragged JSON contents, tables with "
        "duplicate or no headers fed to table.dict; csv streams: every text of length <= 5 (quick) / <= 6 (thorough) over {a , \" CR LF space e-acute} through "
        "the reader and the line iterator, every grid of <= 2 fields of <= 2 such characters (one record) / two one-field records / empty-record shapes "
        "x {CRLF, LF} x {QUOTE_MINIMAL, QUOTE_ALL} through writer and reader, random ragged grids of 0-12 records with CR/LF/CRLF/quote/NUL-rich cells, "
        "tablib-exported sheets and 3 mutations of each (blank lines, dropped / added fields, bare CR or LF line ends, BOM, stray quotes, invalid UTF-8 "
        "bytes) through load_csv, random UTF-8 / ill-formed byte strings through the codec.  Every case has non-trivial content; distinct = distinct "
        "workbook / grid / text"
    )
    ck.assumptions = [
        "openpyxl writer/reader and tablib's xlsx import deliver the written grid (exercised on every case, not modelled)",
        "the Lean model of the json library (Rpft/JsonText.lean: encode_basestring, _make_iterencode with indent=2, scanstring_unicode / scan_once / _parse_object / _parse_array of _json.c, JSONDecoder.decode, restricted to strings / arrays / objects; recursion limit not modelled) is the real library: compared exhaustively on small texts, on every convert output of the run and on foreign / damaged files, not proved from the C source",
        "the Lean model of the csv library (Rpft/Csv.lean: join_append_data / csv_writerow / parse_process_char / Reader_iternext of CPython 3.12 _csv.c, text-file line iteration with newline='', strict UTF-8) is the real library: compared exhaustively on small inputs and randomly on larger ones on every run, not proved from the C source",
        "the harness writers are what 'the same workbook content' means: csv.writer (excel dialect, UTF-8, no BOM) and openpyxl text cells",
        "JSON cell values are strings (what the three readers produce); object key order is kept by json and by dict",
    ]
    ck.partial_gap = [
        "the XLSX byte format (openpyxl: zip + XML; tablib's xlsx import) is library code: exercised, not modelled (C14_full holds relative to its faithfulness: theorem c14_partial); the CSV byte format is modelled and its round trip proved for all grids whose cells fit csv.field_size_limit() = 131072 characters (a guard that every workbook storable as XLSX satisfies: XLSX cell text is capped at 32767 characters); the JSON byte format is modelled (values of strings / arrays / objects) and its round trip proved for all workbooks of rectangular sheets with distinct headers, at least one row and distinct names",
        "that create_flows is a function of reader.sheets (convert_then_compile takes the compiler as an arbitrary function) is exercised by the compile stream, not proved",
        "GoogleSheetReader is not covered (no network)",
    ]
    if not core.DRIVER_BIN.exists():
        raise core.Infra("driver not built:\n" + ck.lean.log[-2000:])
    import openpyxl  # noqa: F401
    import tablib  # noqa: F401

    import rpft.converters  # noqa: F401  (fail early → infra)

    quick = ck.tier == "quick"
    n_read, n_comp, n_direct, n_cli = (500, 250, 4000, 6) if quick else (4000, 1500, 30000, 24)

    tmp = tempfile.mkdtemp(prefix="c14_")
    try:
        witness_stream(ck, tmp)
        known_streams(ck, tmp)
        typed_stream(ck, tmp)
    finally:
        shutil.rmtree(tmp, ignore_errors=True)

    def seeds(n):
        return [ck.rng.getrandbits(48) for _ in range(n)]

    fold(ck, par.pmap(read_worker, core.shard(seeds(n_read), par.NPROC * 2)), "read_workbooks")
    fold(ck, par.pmap(compile_worker, core.shard(seeds(n_comp), par.NPROC * 2)), "compile_workbooks")
    fold(ck, par.pmap(direct_worker, core.shard(seeds(n_direct), par.NPROC)), "direct_cases")
    fold(ck, par.pmap(cli_worker, core.shard(seeds(n_cli), min(par.NPROC, n_cli))), "cli_workbooks")

    # the CSV byte format: model of csv.writer / newline='' line iteration / csv.reader / UTF-8 vs the real ones
    tmpc = tempfile.mkdtemp(prefix="c14csvfix_")
    try:
        csv_fixed_stream(ck, tmpc)
    finally:
        shutil.rmtree(tmpc, ignore_errors=True)
    n_txt, n_grid, n_file, n_utf8 = (5, 300, 400, 3000) if quick else (6, 6000, 4000, 30000)
    fold(ck, par.pmap(csv_text_worker, core.shard(csv_small_strings(n_txt), par.NPROC * 2)), "csv_texts_exhaustive")
    grids = csv_small_grids()
    ck.count("csv_grids_exhaustive", len(grids))
    grids += [gen_csv_grid(random.Random(sd)) for sd in seeds(n_grid)]
    fold(ck, par.pmap(csv_grid_worker, core.shard(grids, par.NPROC * 2)), "csv_grids_x_4_dialects")
    fold(ck, par.pmap(csv_file_worker, core.shard(seeds(n_file), par.NPROC)), "csv_files")
    fold(ck, par.pmap(csv_utf8_worker, core.shard(seeds(n_utf8), par.NPROC)), "csv_utf8_cases")
    # JSON string literals: encode_basestring / scanstring
    fold(ck, par.pmap(json_string_worker, json_string_tasks(ck, quick)), "json_string_cases")
    import itertools

    doc_texts = ["".join(q) for k in range(0, 6 if quick else 7) for q in itertools.product(JSON_DOC_ALPHA, repeat=k)]
    fold(ck, par.pmap(json_doc_text_worker, core.shard(doc_texts, par.NPROC * 2)), "json_doc_texts_exhaustive")
    fold(ck, par.pmap(json_doc_file_worker, core.shard(seeds(600 if quick else 6000), par.NPROC)), "json_doc_files")
    tmpj = tempfile.mkdtemp(prefix="c14jk_")
    try:
        drvj = core.Driver()
        kernel_docs = [("{\"sheets\":{\"s\":[{\"a\":\"1\",\"b\":\"\"}]}}", {"s": {"headers": ["a", "b"], "rows": [["1", ""]]}}),
                       (" {\r\n\t\"sheets\" : { \"s\" : [ [ \"1\" , \"2\" ] ] } , \"meta\" : { } } \n", {"s": {"headers": None, "rows": [["1", "2"]]}}),
                       ("{\"sheets\": {\"s\": [{\"a\": \"1\"}, {\"a\": \"2\", \"b\": \"3\"}]}}", {"__err__": "invalidDimensions"}),
                       ("{\"sheets\": {\"s\": [{\"a\": \"1\"},]}}", {"__err__": "expectingValue"}), ("{\"meta\": {}}", {"__err__": "shape"}),
                       ("{\"a\": \"1\", \"b\": \"2\", \"a\": \"3\"}", None)]
        for i, (t, want_t) in enumerate(kernel_docs):
            ck.case("json:kernel:doc:" + t)
            ck.count("json_kernel_facts_replayed")
            if want_t is None:
                if list(json.loads(t).items()) != [("a", "3"), ("b", "2")]:
                    ck.tie_break("kernel-checked fact needs_unique_keys does not hold on the real json.loads", {"text": t, "real": json.loads(t)})
                continue
            real = real_json_reader_bytes(t.encode("utf-8"), tmpj, i)
            a = model_book(drvj.results([{"op": "jsontext.loadbook", "bytes": list(t.encode("utf-8"))}])[0])
            if not (a == real == want_t):
                ck.tie_break("kernel-checked fact json_reader_facts does not hold on the real JSON reader", {"text": t, "kernel": want_t, "model": a, "real": real})
    finally:
        shutil.rmtree(tmpj, ignore_errors=True)
    kernel_json = [("\"\\/\\u00E9\\ud83d\\uDE00\"x", {"ok": ["/é\U0001F600", "x"]}), ("\"a\nb\"", {"err": "controlChar"}), ("\"\\a\"", {"err": "invalidEscape"}),
                   ("\"\\u12\"", {"err": "invalidUnicodeEscape"}), ("\"\\u0041", {"err": "invalidUnicodeEscape"}), ("\"\\ud83d\\uzzzz\"", {"err": "invalidUnicodeEscape"}),
                   ("\"abc", {"err": "unterminated"})]
    for t, want_r in kernel_json:
        ck.case("json:kernel:" + t)
        ck.count("json_kernel_facts_replayed")
        if real_json_scan(t) != want_r:
            ck.tie_break("kernel-checked fact json_string_facts does not hold on the real scanner", {"text": t, "model": want_r, "real": real_json_scan(t)})
    lit = "a\"b\\c/\n\r\t\b\f\x00\x1f\x7fé"
    if json.dumps(lit, ensure_ascii=False) != "\"a\\\"b\\\\c/\\n\\r\\t\\b\\f\\u0000\\u001f\x7fé\"":
        ck.tie_break("kernel-checked fact json_string_facts (the literal) does not hold on the real json.dumps", {"real": json.dumps(lit, ensure_ascii=False)})

    if ck.strata.get("json_writer_text_differs_same_value"):
        ck.notes.append("to_json no longer writes the text the model writes (json.dumps(book, ensure_ascii=False, indent=2)) but the same JSON value in another "
                        "representation: json_file_roundtrip then speaks about the model's text only; the model reader agrees with the real reader on the real text "
                        "(%d outputs)" % ck.strata["json_writer_text_differs_same_value"])
    # self-check of the generator's reach (exit 2, not a violation)
    need = ["sheet_name_not_nfc", "sheet_name_nfc_not_nfkc", "header_not_nfc", "header_nfc_not_nfkc", "cell_not_nfc", "cell_nfc_not_nfkc", "compile_sheet_name_not_nfc",
            "split_over_two_inputs", "cell_newline", "cell_comma", "cell_quote", "cell_astral", "cell_empty", "cell_lead_eq_or_apostrophe", "compiled_ok",
            "sanitize:ok", "sanitize:allNoneHeaders", "sanitize:noHeaders", "readjson:invalidDimensions", "readjson:ok", "tojson:dup_headers",
            "csv_grid:lone_empty_field", "csv_grid:empty_record", "csv_grid:cell_cr", "csv_grid:outside_guard(LF,minimal,CR in cell)", "csv_text:blank_record",
            "csv_text:field_with_line_end", "csv_file:cell_cr", "csv_file:cell_crlf", "csv_file:cell_quote", "csv_file:mutated:invalidDimensions",
            "csv_file:mutated:decode", "csv_file:mutated:other_sheet", "csv_utf8:rejected", "csv_utf8:decodes",
            "json_enc:escapes", "json_enc:verbatim", "json_scan:ok", "json_scan:controlChar", "json_scan:invalidEscape", "json_scan:invalidUnicodeEscape",
            "json_scan:unterminated", "json_scan:lone_surrogate_unrepresentable", "json_doc_text:ok", "json_doc_text:error", "json_doc_file:read_ok",
            "json_doc_file:syntax_error", "json_doc_file:shape", "json_doc_file:invalidDimensions", "json_doc_file:decode", "json_bytes_through_model_dump",
            "json_bytes_through_model_load"]
    missing = [k for k in need if not ck.strata.get(k)]
    clean = not ck.violations and not ck.tie_breaks      # never let the self-check mask a failure
    if missing and clean:
        raise core.Infra("generator self-check: strata not reached: " + ", ".join(missing))
    if clean and ck.strata.get("compiled_ok", 0) < 0.8 * ck.strata.get("compile_workbooks", 1):
        raise core.Infra("generator self-check: fewer than 80% of the compilable workbooks compile from CSV")

    if (ck.tie_breaks or not ck.lean.ok) and not ck.violations and quick:
        # obligation broken: failing-input search = the thorough-size oracle on fresh seeds
        ck.search_ran = True
        fold(ck, par.pmap(read_worker, core.shard(seeds(2000), par.NPROC * 2)), "search_read_workbooks")
        fold(ck, par.pmap(compile_worker, core.shard(seeds(600), par.NPROC * 2)), "search_compile_workbooks")
        fold(ck, par.pmap(direct_worker, core.shard(seeds(20000), par.NPROC)), "search_direct_cases")
        fold(ck, par.pmap(csv_file_worker, core.shard(seeds(4000), par.NPROC)), "search_csv_files")


def replay(path):
    rec = json.load(open(path))
    print(json.dumps(rec, indent=1, ensure_ascii=False)[:6000])
    rp = rec.get("replay", {})
    wb = rp.get("workbook")
    if wb:
        tmp = tempfile.mkdtemp(prefix="c14replay_")
        try:
            style = rp.get("style") or {"lt": "\r\n", "quote_all": False, "skip_empty": False}
            m = materialise(os.path.join(tmp, "w"), wb, style)
            exp = expect_of(omit_blank_rows(wb))
            for label in [l for l in FORMATS_ALL if l in m["paths"]]:
                fmt, p = m["paths"][label]
                got = {"__exc__": p} if fmt == "__exc__" else read_sheets(fmt, p)
                d = first_diff(exp, got)
                print(f"--- {label}: read differs from written (all-empty rows omitted):", json.dumps(d, ensure_ascii=False))
                if d is not None and not json.dumps(d, ensure_ascii=False).isascii():
                    print("    (escaped, so that look-alike texts can be told apart):", json.dumps(d, ensure_ascii=True))
                if any(s["name"] == "content_index" for s in wb) and fmt != "__exc__":
                    print(f"    compile: {json.dumps(summarise(compile_real(fmt, [p])), ensure_ascii=False)[:300]}")
        finally:
            shutil.rmtree(tmp, ignore_errors=True)
    if "grid" in rp:
        print("real _sanitize ->", real_sanitize(rp["grid"]))
    return 0
