"""C06 — one name, one UUID: group and flow references are globally consistent.

A  proof step: Rpft.Props.C06 (assign_functional, groups_listed, defined_flow_uuid,
   explicit_wins*, conflict_rejected, conflict_sound, trigger_*, validate_idem, …) over the
   hand model Rpft/Uuid.lean of UUIDDict / update_global_uuids, re-checked by the kernel
   against the call sequences regenerated from /repo (T1).
B  tie: containers built three ways (content-index sheets, from_dict, direct API calls),
   rendered 1-3 times; every (site, kind, name, uuid) occurrence of the real render()
   output, the top-level group list and the error (kind, name, reported pair) are compared
   with the model's answer (`uuid.run`), invented uuids canonicalised by first occurrence.
   The containers may list groups before validation (also as the target sheets are parsed
   into), some with query/status/system/count; several names may share one explicit uuid.
C  direct oracle: the property's own statement evaluated on the real output (every render of a
   staged history; its last render also against the same content built in one go).
"""
from __future__ import annotations

import copy
import csv
import io
import json
import logging
import random
import re

from .. import core, par

MANIFEST = dict(
    text="Proof: Lean theorems assign_functional / groups_listed / group_list_sound / defined_flow_uuid / explicit_wins (every site, every position) / conflict_rejected / conflict_sound / trigger_check_exact / trigger_unknown_flow_rejected_partial / validate_idem / container_validate_idem over a hand model of UUIDDict and RapidProContainer.update_global_uuids, for all occurrence lists, all starting dictionaries and any number of repeated validations (unbounded); tied to the code by a differential run over containers built through content-index sheets, from_dict and direct API calls (names shared across flows/campaigns/triggers, explicit uuids on random subsets of occurrences in random order, 1-3 renders; also containers that grow through the API between renders — stage_consistent / stage_explicit_wins over Uuid.runStage) and by T1 call sequences regenerated from the source. The property's own statement is evaluated on every real render() output.",
    ref="§5 C06",
    note="Trusts: Lean kernel (axioms audited each run), the differential harness (spec → model request translation, output scanner) and Driver JSON codec, Python dict insertion order, uuid4 freshness (checked, not proved). `trigger for a flow that does not exist` is proved for the reading the code implements (flow name not mentioned anywhere) — the full reading is false on the unchanged tree (known finding F-C06-b, negative witness in Lean); obj_id inside inserted blocks was lost (F-C06-a, fixed).",
    technique="Lean 4 proof (induction over the occurrence list, dictionary invariants) + randomized model/code correspondence at render() output",
)

GROUP_SITES = ("action", "case", "campGroup", "trigGroup", "trigExclude")
FLOW_SITES = ("action", "campEvent", "trigFlow")

GROUP_NAMES = ["G1", "G2", "G3", "Shared", "grp four", "Ünï grp", "g1"]
FLOW_NAMES = ["F1", "F2", "F3", "Shared", "F5"]
SHEET_FLOW_NAMES = ["F1", "F2", "F3", "Shared", "F5"]
UNKNOWN_FLOWS = ["Nowhere", "Ghost"]
UUID4 = re.compile(r"^[0-9a-f]{8}-[0-9a-f]{4}-4[0-9a-f]{3}-[89ab][0-9a-f]{3}-[0-9a-f]{12}$")


# ------------------------------------------------------------------ real-code helpers


class _Capture(logging.Handler):
    def __init__(self):
        super().__init__(level=logging.ERROR)
        self.records = []

    def emit(self, record):
        self.records.append((record.levelname, record.getMessage()[:200]))


class capture_logs:
    def __enter__(self):
        self.h = _Capture()
        self.loggers = [logging.getLogger("main"), logging.getLogger("rpft.rapidpro.models.routers")]
        for lg in self.loggers:
            lg.addHandler(self.h)
        return self.h

    def __exit__(self, *a):
        for lg in self.loggers:
            lg.removeHandler(self.h)


def _mem_reader(sheets: dict):
    import tablib
    from rpft.parsers.sheets import AbstractSheetReader, Sheet

    class MemReader(AbstractSheetReader):
        def __init__(self, sheets):
            self.name = "mem"
            self._sheets = {
                name: Sheet(reader=self, name=name, table=tablib.import_set(text, format="csv"))
                for name, text in sheets.items()
            }

    return MemReader(sheets)


def _csv(rows) -> str:
    buf = io.StringIO()
    w = csv.writer(buf, lineterminator="\n")
    for r in rows:
        w.writerow(r)
    return buf.getvalue()


# ------------------------------------------------------------------ spec → real container


def group_meta(spec):
    """the attributes besides name and uuid (query / status / system / count) every group of the
    pre-existing top-level list carries, parallel to spec["groups"] ({} = a plain group)"""
    meta = list(spec.get("group_meta") or [])
    return (meta + [{}] * len(spec["groups"]))[:len(spec["groups"])]


def listed_groups(spec):
    """the pre-existing group list as real Group objects"""
    from rpft.rapidpro.models.actions import Group

    return [Group(n, u, **m) for (n, u), m in zip(spec["groups"], group_meta(spec))]


def build_objects(spec):
    """Direct API calls.  Returns (container, flows, campaigns, triggers) — the container is
    filled only in api mode (dict mode assembles the pieces into an export dict)."""
    from rpft.rapidpro.models.actions import (
        AddContactGroupAction, Group, RemoveContactGroupAction, SendMessageAction,
    )
    from rpft.rapidpro.models.campaigns import Campaign, CampaignEvent
    from rpft.rapidpro.models.containers import FlowContainer, RapidProContainer
    from rpft.rapidpro.models.nodes import BasicNode, EnterFlowNode, SwitchRouterNode
    from rpft.rapidpro.models.triggers import Trigger

    container = RapidProContainer(groups=listed_groups(spec))
    flows = []
    for f in spec["flows"]:
        fc = FlowContainer(f["name"], uuid=f["uuid"])
        for nd in f["nodes"]:
            if nd["t"] == "actions":
                node = BasicNode()
                for a in nd["actions"]:
                    groups = [Group(n, u) for n, u in a["groups"]]
                    node.add_action(AddContactGroupAction(groups=groups) if a["t"] == "add" else RemoveContactGroupAction(groups=groups))
            elif nd["t"] == "enter":
                node = EnterFlowNode(flow_name=nd["flow"][0], flow_uuid=nd["flow"][1])
            elif nd["t"] == "split":
                node = SwitchRouterNode("@contact.groups")
                for i, (n, u) in enumerate(nd["cases"]):
                    node.add_choice("@contact.groups", "has_group", [u, n], f"cat{i}", None)
            else:
                node = BasicNode()
                node.add_action(SendMessageAction(text="hello"))
            fc.add_node(node)
        flows.append(fc)
        if spec["mode"] == "api":
            if spec.get("add_flow", True):
                container.add_flow(fc)
            else:
                container.flows.append(fc)
    campaigns = []
    for c in spec["campaigns"]:
        if c.get("by_name"):
            camp = Campaign(c["name"], group_name=c["group"][0], group_uuid=c["group"][1])
        else:
            camp = Campaign(c["name"], group=Group(c["group"][0], c["group"][1]))
        for e in c["events"]:
            if e["type"] == "F":
                ev = CampaignEvent(3, "D", "F", -1, "I", relative_to_label="Created On",
                                   flow_name=e["flow"][0], flow_uuid=e["flow"][1])
            else:
                kw = dict(flow_name=e["flow"][0], flow_uuid=e["flow"][1]) if e.get("flow") else {}
                ev = CampaignEvent(3, "D", "M", -1, "I", relative_to_label="Created On",
                                   message={"eng": "hi"}, base_language="eng", **kw)
            camp.add_event(ev)
        campaigns.append(camp)
        if spec["mode"] == "api":
            container.add_campaign(camp)
    triggers = []
    for t in spec["triggers"]:
        tr = Trigger("K", keywords=["kw"], flow_name=t["flow"][0], flow_uuid=t["flow"][1],
                     group_names=[g[0] for g in t["groups"]], group_uuids=[g[1] for g in t["groups"]],
                     exclude_group_names=[g[0] for g in t["exclude"]], exclude_group_uuids=[g[1] for g in t["exclude"]])
        triggers.append(tr)
        if spec["mode"] == "api":
            container.add_trigger(tr)
    return container, flows, campaigns, triggers


def grow_container(spec, on_stage, made_flows=None):
    """A staged history on the real classes: stage s adds, through the public API, the flows
    (add_flow), nodes (FlowContainer.add_node), group actions (BaseNode.add_action), has_group
    cases (SwitchRouterNode.add_choice), campaigns (add_campaign), events (Campaign.add_event)
    and triggers (add_trigger) whose stage is s — to the objects that are already there when
    the parent is older.  `on_stage(s, container)` is called after every stage."""
    from rpft.rapidpro.models.actions import (
        AddContactGroupAction, Group, RemoveContactGroupAction, SendMessageAction,
    )
    from rpft.rapidpro.models.campaigns import Campaign, CampaignEvent
    from rpft.rapidpro.models.containers import FlowContainer, RapidProContainer
    from rpft.rapidpro.models.nodes import BasicNode, EnterFlowNode, SwitchRouterNode
    from rpft.rapidpro.models.triggers import Trigger

    container = RapidProContainer(groups=listed_groups(spec))
    flow_objs, node_objs, camp_objs = {}, {}, {}
    first = 0
    if spec["mode"] == "dict":
        # the first stage is an imported export (from_dict), the later ones edit it through the API
        container = RapidProContainer.from_dict(build_dict(stage_subspec(spec, 0)))
        for i, fc in zip([i for i, f in enumerate(spec["flows"]) if stage_of(f) == 0], container.flows):
            flow_objs[i] = fc
            if made_flows is not None:
                made_flows.append(fc.uuid)
            old = [j for j, nd in enumerate(spec["flows"][i]["nodes"]) if stage_of(nd) == 0]
            assert len(old) == len(fc.nodes)
            for j, node in zip(old, fc.nodes):
                node_objs[i, j] = node
        for i, camp in zip([i for i, c in enumerate(spec["campaigns"]) if stage_of(c) == 0], container.campaigns):
            camp_objs[i] = camp
        on_stage(0, container)
        first = 1
    for s in range(first, spec["stages"]):
        for i, f in enumerate(spec["flows"]):
            if stage_of(f) > s:
                continue
            if stage_of(f) == s:
                flow_objs[i] = FlowContainer(f["name"], uuid=f["uuid"])
                if made_flows is not None:
                    made_flows.append(flow_objs[i].uuid)
            fc = flow_objs[i]
            for j, nd in enumerate(f["nodes"]):
                ns = max(stage_of(nd), stage_of(f))
                if ns > s:
                    continue
                if ns == s:
                    if nd["t"] == "actions":
                        node = BasicNode()
                    elif nd["t"] == "enter":
                        node = EnterFlowNode(flow_name=nd["flow"][0], flow_uuid=nd["flow"][1])
                    elif nd["t"] == "split":
                        node = SwitchRouterNode("@contact.groups")
                    else:
                        node = BasicNode()
                        node.add_action(SendMessageAction(text="hello"))
                    node_objs[i, j] = node
                node = node_objs[i, j]
                if nd["t"] == "actions":
                    for a in nd["actions"]:
                        if max(ns, stage_of(a)) == s:
                            groups = [Group(n, u) for n, u in a["groups"]]
                            node.add_action(AddContactGroupAction(groups=groups) if a["t"] == "add" else RemoveContactGroupAction(groups=groups))
                elif nd["t"] == "split":
                    for c, ((n, u), cs) in enumerate(zip(nd["cases"], case_stages(nd))):
                        if max(ns, cs) == s:
                            node.add_choice("@contact.groups", "has_group", [u, n], f"cat{c}", None)
                if ns == s:
                    fc.add_node(node)
            if stage_of(f) == s:
                if spec.get("add_flow", True):
                    container.add_flow(fc)
                else:
                    container.flows.append(fc)
        for i, c in enumerate(spec["campaigns"]):
            if stage_of(c) > s:
                continue
            if stage_of(c) == s:
                if c.get("by_name"):
                    camp_objs[i] = Campaign(c["name"], group_name=c["group"][0], group_uuid=c["group"][1])
                else:
                    camp_objs[i] = Campaign(c["name"], group=Group(c["group"][0], c["group"][1]))
            for e in c["events"]:
                if max(stage_of(c), stage_of(e)) != s:
                    continue
                if e["type"] == "F":
                    ev = CampaignEvent(3, "D", "F", -1, "I", relative_to_label="Created On",
                                       flow_name=e["flow"][0], flow_uuid=e["flow"][1])
                else:
                    kw = dict(flow_name=e["flow"][0], flow_uuid=e["flow"][1]) if e.get("flow") else {}
                    ev = CampaignEvent(3, "D", "M", -1, "I", relative_to_label="Created On",
                                       message={"eng": "hi"}, base_language="eng", **kw)
                camp_objs[i].add_event(ev)
            if stage_of(c) == s:
                container.add_campaign(camp_objs[i])
        for t in spec["triggers"]:
            if stage_of(t) == s:
                container.add_trigger(Trigger(
                    "K", keywords=["kw"], flow_name=t["flow"][0], flow_uuid=t["flow"][1],
                    group_names=[g[0] for g in t["groups"]], group_uuids=[g[1] for g in t["groups"]],
                    exclude_group_names=[g[0] for g in t["exclude"]], exclude_group_uuids=[g[1] for g in t["exclude"]]))
        on_stage(s, container)
    return container


def build_dict(spec):
    """The export dict of the spec: every piece rendered on its own (no validation, uuids as
    given), assembled like RapidProContainer.render() does; hidden flow of message events
    is put back (render drops it)."""
    _, flows, campaigns, triggers = build_objects(spec)
    camps = []
    for c, cs in zip(campaigns, spec["campaigns"]):
        d = c.render()
        for ev, es in zip(d["events"], cs["events"]):
            if es["type"] == "M" and es.get("flow"):
                ev["flow"] = {"name": es["flow"][0], "uuid": es["flow"][1]}
        camps.append(d)
    data = {
        "campaigns": camps,
        "fields": [],
        "flows": [f.render() for f in flows],
        "groups": [dict({"name": n, "uuid": u}, **m) for (n, u), m in zip(spec["groups"], group_meta(spec))],
        "site": "https://rapidpro.idems.international",
        "triggers": [t.render() for t in triggers],
        "version": "13",
    }
    for f, fs in zip(data["flows"], spec["flows"]):
        f["uuid"] = fs["uuid"]  # keep None / "" as given (FlowContainer.__init__ invents otherwise)
    return json.loads(json.dumps(data))


FLOW_HEADER = ["row_id", "type", "from", "condition", "message_text", "obj_id", "node_name"]
ACTION_ROWS = ("add", "remove", "msg")


def merges(rows, i):
    """row i is written as an extra action of the node of row i-1 (same node_name, one
    unconditional edge from that row) — the shape flows_to_sheets produces for multi-action nodes"""
    return bool(i > 0 and rows[i].get("merge") and rows[i]["t"] in ACTION_ROWS and rows[i - 1]["t"] in ACTION_ROWS)


def sheet_rows(rows, prefix=""):
    """CSV rows of a flow / block sheet: a linear chain, split rows followed by one message row
    per case; action rows carry a node_name, a merged row repeats the node_name of the row
    before it.  Returns the row tuples."""
    out = []
    prev = "start"
    prev_cond = ""
    k = 0
    node_name = ""
    for i, r in enumerate(rows):
        k += 1
        rid = f"{prefix}r{k}"
        t = r["t"]
        if t in ACTION_ROWS:
            if merges(rows, i):
                assert prev_cond == "" and node_name
            else:
                node_name = f"{prefix}node{k}"
            if t == "msg":
                out.append([rid, "send_message", prev, prev_cond, "some text", "", node_name])
            else:
                out.append([rid, "add_to_group" if t == "add" else "remove_from_group", prev, prev_cond, r["name"], r["obj_id"] or "", node_name])
            prev, prev_cond = rid, ""
        elif t == "start":
            out.append([rid, "start_new_flow", prev, prev_cond, r["name"], r["obj_id"] or "", ""])
            prev, prev_cond = rid, "completed"
        elif t == "split":
            out.append([rid, "split_by_group", prev, prev_cond, r["name"], r["obj_id"] or "", ""])
            last = None
            for j, cnd in enumerate(r["conds"]):
                mid = f"{rid}c{j}"
                out.append([mid, "send_message", rid, cnd, f"in {cnd}", "", ""])
                last = mid
            prev, prev_cond = (last or rid), ""
        elif t == "block":
            out.append([rid, "insert_as_block", prev, prev_cond, r["block"], "", ""])
            prev, prev_cond = rid, ""
    return out


def build_sheets(spec):
    index = [["type", "sheet_name", "new_name", "group"]]
    sheets = {}
    for name, rows in spec["blocks"].items():
        index.append(["template_definition", name, "", ""])
        sheets[name] = _csv([FLOW_HEADER] + sheet_rows(rows))
    entries = []
    for f in spec["flows"]:
        entries.append(("f", ["create_flow", f["name"], "", ""]))
        sheets[f["name"]] = _csv([FLOW_HEADER] + sheet_rows(f["rows"]))
    for i, c in enumerate(spec["campaigns"]):
        sn = f"camp_sheet_{i}"
        entries.append(("c", ["create_campaign", sn, c["name"], c["group"][0]]))
        rows = [["offset", "unit", "event_type", "delivery_hour", "message", "relative_to", "start_mode", "flow"]]
        for e in c["events"]:
            if e["type"] == "F":
                rows.append(["3", "D", "F", "", "", "Created On", "I", e["flow"][0]])
            else:
                rows.append(["3", "D", "M", "", "hi there", "Created On", "I", e["flow"][0] if e.get("flow") else ""])
        sheets[sn] = _csv(rows)
    if spec["triggers"]:
        entries.append(("t", ["create_triggers", "trig_sheet", "", ""]))
        rows = [["type", "keywords", "flow", "groups", "exclude_groups", "match_type"]]
        for t in spec["triggers"]:
            rows.append(["K", "kw", t["flow"][0], ";".join(g[0] for g in t["groups"]), ";".join(g[0] for g in t["exclude"]), ""])
        sheets["trig_sheet"] = _csv(rows)
    tags = spec.get("interleave") or [e[0] for e in entries]
    queues = {k: [e[1] for e in entries if e[0] == k] for k in "fct"}
    for tg in tags:
        index.append(queues[tg].pop(0))
    sheets["content_index"] = _csv(index)
    return sheets


# ------------------------------------------------------------------ spec → model request


def _sheet_entries(rows, blocks, top=True):
    """(pre records, node list) a list of sheet rows produces — as coded: every row that makes
    a node records its obj_id on the container while parsing (also inside inserted blocks,
    since fix F-C06-a); a row MERGED into an existing node (same node_name) returns from
    _parse_row before _get_row_node: it records nothing at parse time, its Group object alone
    carries the obj_id into validate()."""
    pre, nodes = [], []
    for i, r in enumerate(rows):
        t = r["t"]
        if t in ("add", "remove"):
            if merges(rows, i):
                nodes[-1]["actions"].append(["group", r["name"], r["obj_id"]])
            else:
                pre.append(["row:group", r["name"], r["obj_id"]])
                nodes.append({"actions": [["group", r["name"], r["obj_id"]]], "cases": []})
        elif t == "msg":
            if not merges(rows, i):
                nodes.append({"actions": [], "cases": []})
        elif t == "start":
            pre.append(["row:flow", r["name"], r["obj_id"]])
            nodes.append({"actions": [["flow", r["name"], None]], "cases": []})
        elif t == "split":
            pre.append(["row:group", r["name"], r["obj_id"]])
            nodes.append({"actions": [], "cases": [[c, None] for c in r["conds"]]})
        elif t == "block":
            assert top, "nested blocks are not generated"
            sub_pre, sub = _sheet_entries(blocks[r["block"]], blocks, top=False)
            pre += sub_pre   # since fix F-C06-a: inserted blocks record on the container itself
            nodes += sub
    return pre, nodes


def flow_placeholder(i):
    return f"«flow-uuid-{i}»"


def model_request(spec):
    """The model's view of the spec.  Flows without an explicit uuid get one invented by
    FlowContainer.__init__ (not by the dictionary): the placeholder «flow-uuid-i»."""
    mode = spec["mode"]
    pre = []
    flows = []
    if mode == "sheets":
        for i, f in enumerate(spec["flows"]):
            p, nodes = _sheet_entries(f["rows"], spec["blocks"])
            pre += p
            flows.append({"name": f["name"], "uuid": flow_placeholder(i), "nodes": nodes})
        for i, f in enumerate(spec["flows"]):  # add_flow, after all flows are parsed
            pre.append(["flow", f["name"], flow_placeholder(i)])
        # a container that lists groups before the sheets are parsed into it (parse_all_flows /
        # _campaigns / _triggers on a RapidProContainer(groups=…)): recorded by validate(), after
        # the obj_id records made while parsing
        groups = [[n, u] for n, u in spec["groups"]]
        camps = [{"events": [[e["flow"][0] if e.get("flow") else None, None, e["type"] == "F"] for e in c["events"]],
                  "group": [c["group"][0], None]} for c in spec["campaigns"]]
        trigs = [{"flow": [t["flow"][0], None], "groups": [[g[0], None] for g in t["groups"]],
                  "exclude": [[g[0], None] for g in t["exclude"]]} for t in spec["triggers"]]
    elif spec.get("stages"):
        return staged_request(spec)
    else:
        cont = object_container(spec)
        if mode == "api" and spec.get("add_flow", True):
            pre = [["flow", f["name"], f["uuid"]] for f in cont["flows"]]
        return {"op": "uuid.run", "pre": pre, "renders": spec["renders"], "container": cont}
    return {"op": "uuid.run", "pre": pre, "renders": spec["renders"],
            "container": {"groups": groups, "flows": flows, "campaigns": camps, "triggers": trigs}}


KEPT = {"kept": True}


def stage_of(x):
    return x.get("stage", 0)


def case_stages(nd):
    return (list(nd.get("case_stages") or []) + [stage_of(nd)] * len(nd["cases"]))[:len(nd["cases"])]


def object_container(spec, upto=None, kept_below=0):
    """The model's container of a dict / api spec.  `upto=s`: only what a staged history has
    added up to stage s; the references of the objects added BEFORE stage `kept_below` are
    replaced by the marker KEPT (they carry what the previous validation assigned)."""
    def on(x_stage):
        return upto is None or x_stage <= upto

    def ref(name, u, x_stage):
        return [name, KEPT if x_stage < kept_below else u]

    flows = []
    for i, f in enumerate(spec["flows"]):
        if not on(stage_of(f)):
            continue
        nodes = []
        for nd in f["nodes"]:
            ns = max(stage_of(nd), stage_of(f))
            if not on(ns):
                continue
            if nd["t"] == "actions":
                nodes.append({"actions": [["group"] + ref(n, u, max(ns, stage_of(a))) for a in nd["actions"] if on(max(ns, stage_of(a)))
                                          for n, u in a["groups"]], "cases": []})
            elif nd["t"] == "enter":
                nodes.append({"actions": [["flow"] + ref(nd["flow"][0], nd["flow"][1], ns)], "cases": []})
            elif nd["t"] == "split":
                nodes.append({"actions": [], "cases": [ref(n, u, max(ns, cs)) for (n, u), cs in zip(nd["cases"], case_stages(nd)) if on(max(ns, cs))]})
        flows.append({"name": f["name"], "uuid": f["uuid"] or flow_placeholder(i), "nodes": nodes})
    groups = [[n, u] for n, u in spec["groups"]]
    camps = []
    for c in spec["campaigns"]:
        if not on(stage_of(c)):
            continue
        evs = []
        for e in c["events"]:
            es = max(stage_of(c), stage_of(e))
            if on(es):
                fl = e["flow"] if e.get("flow") else [None, None]
                evs.append(ref(fl[0], fl[1], es) + [e["type"] == "F"])
        camps.append({"events": evs, "group": ref(c["group"][0], c["group"][1], stage_of(c))})
    trigs = [{"flow": ref(t["flow"][0], t["flow"][1], stage_of(t)), "groups": [ref(g[0], g[1], stage_of(t)) for g in t["groups"]],
              "exclude": [ref(g[0], g[1], stage_of(t)) for g in t["exclude"]]} for t in spec["triggers"] if on(stage_of(t))]
    return {"groups": groups, "flows": flows, "campaigns": camps, "triggers": trigs}


def staged_request(spec):
    """A container built in `stages` steps through the public API and validated / rendered after
    every step: stage s adds the flows / nodes / actions / has_group cases / campaigns / events /
    triggers whose `stage` is s (to the objects that are already there, when their parent is
    older).  `container` is the final content (what the one-go twin holds)."""
    stages, pre_all = [], []
    for s in range(spec["stages"]):
        pre = []
        if spec.get("add_flow", True) and not (spec["mode"] == "dict" and s == 0):  # stage 0 of a dict history is from_dict
            pre = [["flow", f["name"], f["uuid"] or flow_placeholder(i)] for i, f in enumerate(spec["flows"]) if stage_of(f) == s]
        pre_all += pre
        stages.append({"pre": pre, "container": object_container(spec, upto=s, kept_below=s), "renders": spec["stage_renders"][s]})
    return {"op": "uuid.staged", "stages": stages, "pre": pre_all, "renders": sum(spec["stage_renders"]),
            "container": object_container(spec), "stage0": stages[0]["container"]}


def flat_inputs(req):
    """flattened (site, kind, name, given) list of the request, in the model's visiting order
    (used to cross-check the request against the real object graph before validation)."""
    c = req["container"]
    out = [("groupList", "group", n, u or None) for n, u in c["groups"]]
    out += [("flowDef", "flow", f["name"], f["uuid"] or None) for f in c["flows"]]
    for f in c["flows"]:
        for nd in f["nodes"]:
            out += [("action", k, n, u or None) for k, n, u in nd["actions"]]
            out += [("case", "group", n, u or None) for n, u in nd["cases"]]
    for cp in c["campaigns"]:
        out += [("campEvent" if shown else "campEventHidden", "flow", n, u or None) for n, u, shown in cp["events"]]
        out.append(("campGroup", "group", cp["group"][0], cp["group"][1] or None))
    for t in c["triggers"]:
        out.append(("trigFlow", "flow", t["flow"][0], t["flow"][1] or None))
        out += [("trigGroup", "group", n, u or None) for n, u in t["groups"]]
        out += [("trigExclude", "group", n, u or None) for n, u in t["exclude"]]
    return out


def walk_objects(container):
    """The same list read off the real object graph (independent of the record/assign hooks)."""
    from rpft.rapidpro.models.actions import EnterFlowAction, GenericGroupAction

    out = [("groupList", "group", g.name, g.uuid or None) for g in container.groups]
    out += [("flowDef", "flow", f.name, f.uuid or None) for f in container.flows]
    for f in container.flows:
        for node in f.nodes:
            for a in node.actions:
                if isinstance(a, GenericGroupAction):
                    out += [("action", "group", g.name, g.uuid or None) for g in a.groups]
                elif isinstance(a, EnterFlowAction):
                    out.append(("action", "flow", a.flow.name, a.flow.uuid or None))
            router = getattr(node, "router", None)
            if router is not None:
                for case in getattr(router, "cases", []):
                    if case.type == "has_group":
                        out.append(("case", "group", case.arguments[1], case.arguments[0] or None))
    for c in container.campaigns:
        for e in c.events:
            out.append(("campEvent" if e.event_type == "F" else "campEventHidden", "flow", e.flow.name, e.flow.uuid or None))
        out.append(("campGroup", "group", c.group.name, c.group.uuid or None))
    for t in container.triggers:
        out.append(("trigFlow", "flow", t.flow.name, t.flow.uuid or None))
        out += [("trigGroup", "group", g.name, g.uuid or None) for g in t.groups]
        out += [("trigExclude", "group", g.name, g.uuid or None) for g in t.exclude_groups]
    return out


# ------------------------------------------------------------------ scanning render() output


def scan_output(out):
    """EVERY (site, kind, name, uuid) occurrence of a rendered container, in document order;
    the top-level group list separately."""
    occs = []
    for f in out["flows"]:
        occs.append(("flowDef", "flow", f["name"], f["uuid"]))
    for f in out["flows"]:
        for node in f["nodes"]:
            for a in node.get("actions") or []:
                if a["type"] in ("add_contact_groups", "remove_contact_groups"):
                    occs += [("action", "group", g["name"], g["uuid"]) for g in a["groups"]]
                elif a["type"] == "enter_flow":
                    occs.append(("action", "flow", a["flow"]["name"], a["flow"]["uuid"]))
            router = node.get("router")
            if router:
                for case in router.get("cases", []):
                    if case["type"] == "has_group":
                        occs.append(("case", "group", case["arguments"][1], case["arguments"][0]))
    for c in out["campaigns"]:
        for e in c["events"]:
            if "flow" in e:
                occs.append(("campEvent", "flow", e["flow"]["name"], e["flow"]["uuid"]))
        occs.append(("campGroup", "group", c["group"]["name"], c["group"]["uuid"]))
    for t in out["triggers"]:
        occs.append(("trigFlow", "flow", t["flow"]["name"], t["flow"]["uuid"]))
        occs += [("trigGroup", "group", g["name"], g["uuid"]) for g in t["groups"]]
        occs += [("trigExclude", "group", g["name"], g["uuid"]) for g in t["exclude_groups"]]
    groups = [(g["name"], g["uuid"]) for g in out["groups"]]
    return occs, groups


class Canon:
    """invented uuids → #k by first occurrence (group list first, then occurrences)"""

    def __init__(self, fixed):
        self.fixed = fixed  # real uuid -> stable label (explicit uuids, flow placeholders)
        self.map = {}

    def __call__(self, u):
        if u is None or u == "":
            return None
        if u in self.fixed:
            return self.fixed[u]
        if u not in self.map:
            self.map[u] = f"#{len(self.map)}"
        return self.map[u]


def canon_model_uid(j, cm):
    if j is None:
        return None
    if "g" in j:
        return j["g"]
    key = ("i", j["i"])
    if key not in cm:
        cm[key] = f"#{len(cm)}"
    return cm[key]


def canon_model_render(r, cm):
    groups = [(n, canon_model_uid(u, cm)) for n, u in r["groups"]]
    occs = [(s, k, n, canon_model_uid(u, cm)) for s, k, n, u in r["occs"] if s != "campEventHidden"]
    return occs, groups


# ------------------------------------------------------------------ expectations from the spec alone


def spec_explicit(req, spec):
    """(kind, name) -> set of explicit uuids, read off the spec (independently of the model):
    every site counts — old group list, flow definitions (a flow always has a uuid), sheet
    obj_id (wherever the row sits, also inside inserted blocks), actions, cases, campaigns,
    triggers."""
    ex = {}

    def add(kind, name, u):
        if u:
            ex.setdefault((kind, name), set()).add(u)

    for site, kind, name, u in flat_inputs(req):
        add(kind, name, u)
    for p in req["pre"]:
        if p[0] != "block":
            add("group" if p[0].endswith("group") else "flow", p[1], p[2])
    if spec["mode"] == "sheets":
        def rows_of(rows):
            for r in rows:
                if r["t"] == "block":
                    yield from rows_of(spec["blocks"][r["block"]])
                else:
                    yield r
        for f in spec["flows"]:
            for r in rows_of(f["rows"]):
                if r["t"] in ("add", "remove", "split"):
                    add("group", r["name"], r["obj_id"])
                elif r["t"] == "start":
                    add("flow", r["name"], r["obj_id"])
    return ex


def spec_expect_error(req, spec, ex):
    """why the property demands an error, if it does"""
    reasons = []
    for key, us in ex.items():
        if len(us) > 1:
            reasons.append(("conflict", key[0], key[1]))
    defined = {f["name"] for f in req["container"]["flows"]}
    for t in req["container"]["triggers"]:
        if t["flow"][0] not in defined:
            reasons.append(("trigger_unknown", "flow", t["flow"][0]))
    return reasons


def trigger_only_referenced(req):
    """trigger of F-C06-b: a trigger names a flow that no flow of the container defines but that
    is mentioned by an enter-flow action, a campaign event, a sheet obj_id record, or an
    earlier… (anything that puts the name into flow_dict before the trigger is visited)"""
    defined = {f["name"] for f in req["container"]["flows"]}
    mentioned = set()
    for site, kind, name, u in flat_inputs(req):
        if kind == "flow" and site in ("action", "campEvent", "campEventHidden"):
            mentioned.add(name)
    for p in req["pre"]:
        if p[0] == "row:flow" and p[2]:
            mentioned.add(p[1])
        if p[0] == "flow":
            mentioned.add(p[1])  # add_flow of a defined flow
    return [t["flow"][0] for t in req["container"]["triggers"] if t["flow"][0] not in defined and t["flow"][0] in mentioned]


def block_objid_lost(spec):
    """trigger of F-C06-a: obj_id on a split_by_group / start_new_flow row inside an inserted block"""
    if spec["mode"] != "sheets":
        return []
    used = set()

    def visit(rows):
        for r in rows:
            if r["t"] == "block":
                used.add(r["block"])
                visit(spec["blocks"][r["block"]])
    for f in spec["flows"]:
        visit(f["rows"])
    return [(("group" if r["t"] == "split" else "flow"), r["name"], r["obj_id"])
            for b in used for r in spec["blocks"][b] if r["t"] in ("split", "start") and r["obj_id"]]


# ------------------------------------------------------------------ running one case


def run_real(spec, req):
    """Build + render k times on the real code.  Returns dict(outs=[…], error=None|{…},
    logs=[…], pre_walk=[…]|None)."""
    from rpft.parsers.creation.contentindexparser import ContentIndexParser
    from rpft.rapidpro.models.containers import RapidProContainer
    from rpft.rapidpro.models.triggers import RapidProTriggerError

    res = {"outs": [], "error": None, "logs": [], "pre_walk": None, "flow_uuids": None}
    with capture_logs() as cap:
        try:
            if spec["mode"] == "sheets" and spec.get("via") == "create_flows":
                # the converter entry point, from CSV files on disk (one render, no object access)
                import os
                import shutil
                import tempfile
                from rpft.converters import create_flows

                d = tempfile.mkdtemp(prefix="c06_")
                try:
                    for name, text in build_sheets(spec).items():
                        with open(os.path.join(d, name + ".csv"), "w", encoding="utf-8", newline="") as fh:
                            fh.write(text)
                    out = create_flows([d], None, "csv")
                finally:
                    shutil.rmtree(d, ignore_errors=True)
                res["outs"].append(json.loads(json.dumps(out)))
                res["flow_uuids"] = [f["uuid"] for f in out["flows"]]
                res["logs"] = list(cap.records)
                return res
            if spec["mode"] == "sheets" and spec["groups"]:
                # the sheets parsed INTO a container that already lists groups (what parse_all does,
                # starting from RapidProContainer(groups=…) instead of an empty container)
                parser = ContentIndexParser(_mem_reader(build_sheets(spec)))
                container = RapidProContainer(groups=listed_groups(spec))
                parser.parse_all_flows(container)
                parser.parse_all_campaigns(container)
                parser.parse_all_triggers(container)
            elif spec["mode"] == "sheets":
                container = ContentIndexParser(_mem_reader(build_sheets(spec))).parse_all()
            elif spec["mode"] == "dict" and not spec.get("stages"):
                container = RapidProContainer.from_dict(build_dict(spec))
            elif spec.get("stages"):
                res["out_stage"] = []

                res["flow_uuids"] = []   # filled as the flows are constructed (add_flow may raise)

                def on_stage(st, container):
                    if st == 0:
                        res["pre_walk"] = walk_objects(container)
                    for _ in range(spec["stage_renders"][st]):
                        res["outs"].append(json.loads(json.dumps(container.render())))
                        res["out_stage"].append(st)

                container = grow_container(spec, on_stage, res["flow_uuids"])
                res["dicts"] = {"flow_dict": list(container.uuid_dict.flow_dict.items()),
                                "group_dict": list(container.uuid_dict.group_dict.items())}
                res["logs"] = list(cap.records)
                return res
            else:
                container, _, _, _ = build_objects(spec)
            res["pre_walk"] = walk_objects(container)
            res["flow_uuids"] = [f.uuid for f in container.flows]
            for _ in range(spec["renders"]):
                out = container.render()
                res["outs"].append(json.loads(json.dumps(out)))
            res["dicts"] = {"flow_dict": list(container.uuid_dict.flow_dict.items()),
                            "group_dict": list(container.uuid_dict.group_dict.items())}
        except RapidProTriggerError as e:
            res["error"] = {"type": "triggerUnknownFlow", "msg": str(e)}
        except ValueError as e:
            m = re.match(r"Group/Flow (.*) has multiple uuids: (.*) and (.*)$", str(e), re.S)
            res["error"] = {"type": "conflict", "msg": str(e), "parsed": m.groups() if m else None}
        except Exception as e:  # anything else is unexpected
            res["error"] = {"type": "other:" + type(e).__name__, "msg": str(e)[:300]}
        res["logs"] = list(cap.records)
    return res


def staged_slots(spec):
    """(kind, name, stage, uuid or None, is a flow definition) of every place of a staged spec"""
    for n, u in spec["groups"]:
        yield "group", n, 0, u or None, False
    for i, f in enumerate(spec["flows"]):
        yield "flow", f["name"], stage_of(f), f["uuid"] or flow_placeholder(i), True
        for nd in f["nodes"]:
            ns = max(stage_of(nd), stage_of(f))
            if nd["t"] == "actions":
                for a in nd["actions"]:
                    for n, u in a["groups"]:
                        yield "group", n, max(ns, stage_of(a)), u or None, False
            elif nd["t"] == "enter":
                yield "flow", nd["flow"][0], ns, nd["flow"][1] or None, False
            elif nd["t"] == "split":
                for (n, u), cs in zip(nd["cases"], case_stages(nd)):
                    yield "group", n, max(ns, cs), u or None, False
    for c in spec["campaigns"]:
        yield "group", c["group"][0], stage_of(c), c["group"][1] or None, False
        for e in c["events"]:
            if e.get("flow"):
                yield "flow", e["flow"][0], max(stage_of(c), stage_of(e)), e["flow"][1] or None, False
    for t in spec["triggers"]:
        yield "flow", t["flow"][0], stage_of(t), t["flow"][1] or None, False
        for g in t["groups"] + t["exclude"]:
            yield "group", g[0], stage_of(t), g[1] or None, False


def late_explicit(spec):
    """(kind, name) whose FIRST explicit uuid arrives at a later stage than the name itself: the
    name has been validated — bound to an invented uuid, rendered — before anybody said which
    uuid it has.  The unchanged code rejects such a history (`has multiple uuids`: the invented
    one and the explicit one; for a flow defined after it was referenced, add_flow itself raises);
    the property's text does not say what should happen, the main stream stays away from it."""
    if not spec.get("stages"):
        return []
    first, first_ex = {}, {}
    for kind, name, stg, u, _ in staged_slots(spec):
        first[kind, name] = min(first.get((kind, name), stg), stg)
        if u:
            first_ex[kind, name] = min(first_ex.get((kind, name), stg), stg)
    return sorted(k for k, stg in first_ex.items() if stg > first[k])


def stage_subspec(spec, upto):
    """the content a staged history holds after stage `upto`, as a plain (unstaged) spec"""
    sp = copy.deepcopy(spec)
    sp["flows"] = [f for f in sp["flows"] if stage_of(f) <= upto]
    for f in sp["flows"]:
        f["nodes"] = [nd for nd in f["nodes"] if stage_of(nd) <= upto]
        for nd in f["nodes"]:
            if nd["t"] == "actions":
                nd["actions"] = [a for a in nd["actions"] if stage_of(a) <= upto]
            elif nd["t"] == "split":
                nd["cases"] = [g for g, cs in zip(nd["cases"], case_stages(nd)) if cs <= upto]
    sp["campaigns"] = [c for c in sp["campaigns"] if stage_of(c) <= upto]
    for c in sp["campaigns"]:
        c["events"] = [e for e in c["events"] if stage_of(e) <= upto]
    sp["triggers"] = [t for t in sp["triggers"] if stage_of(t) <= upto]
    return twin_of(sp)


def twin_of(spec):
    """the same final content built in one go (and rendered once)"""
    sp = copy.deepcopy(spec)
    for key in ("stages", "stage_renders"):
        sp.pop(key, None)
    sp["renders"] = 1
    for f in sp["flows"]:
        f.pop("stage", None)
        for nd in f["nodes"]:
            nd.pop("stage", None)
            nd.pop("case_stages", None)
            for a in nd.get("actions") or []:
                a.pop("stage", None)
    for c in sp["campaigns"]:
        c.pop("stage", None)
        for e in c["events"]:
            e.pop("stage", None)
    for t in sp["triggers"]:
        t.pop("stage", None)
    return sp


def canon_for_twin(out, fixed):
    """every occurrence and the name → uuid map of the group list, invented uuids renamed by first
    occurrence in document order (the ORDER of the group list depends on the order in which the
    names were first validated, which a staged history changes: not compared)"""
    occs, groups = scan_output(out)
    cn = Canon(fixed)
    co = [(s, k, n, cn(u)) for s, k, n, u in occs]
    return co, sorted((n, cn(u)) for n, u in sorted(groups))


def fixed_map(ex, real, req):
    fixed = {}
    for us in ex.values():
        for u in us:
            fixed[u] = u
    for i, (fu, f) in enumerate(zip(real["flow_uuids"] or [], req["container"]["flows"])):
        if f["uuid"] == flow_placeholder(i):
            fixed[fu] = flow_placeholder(i)
    return fixed


def check_case(spec, req, model, real, twin=None):
    """Returns (ties, violations, info) for one case."""
    ties, viol = [], []
    info = {"error": None, "known": []}
    late = late_explicit(spec)
    out_stage = real.get("out_stage")
    renders = model.get("renders") if isinstance(model, dict) else None
    if renders is None:
        ties.append({"what": "driver error", "model": model})
        renders = []

    ex = spec_explicit(req, spec)
    reasons = spec_expect_error(req, spec, ex)
    only_ref = trigger_only_referenced(req)
    lost = block_objid_lost(spec)
    real_failed = real["error"] is not None or any(lv in ("ERROR", "CRITICAL") for lv, _ in real["logs"])
    info["error"] = real["error"]["type"] if real["error"] else ("log" if real_failed else None)

    # placeholders for flow uuids invented at construction time
    fixed = {}
    for us in ex.values():
        for u in us:
            fixed[u] = u
    if real["flow_uuids"] is not None:
        for i, (fu, f) in enumerate(zip(real["flow_uuids"], req["container"]["flows"])):
            if f["uuid"] == flow_placeholder(i):
                if fu in fixed or not UUID4.match(str(fu)):
                    viol.append({"what": "a flow without explicit uuid did not get a fresh uuid4", "uuid": fu})
                fixed[fu] = flow_placeholder(i)

    # ---- B0: the request is what the real object graph holds before validation
    if real["pre_walk"] is not None:
        want = flat_inputs({"container": req["stage0"]} if "stage0" in req else req)
        got = [(s, k, n, fixed.get(u, u) if u else None) for s, k, n, u in real["pre_walk"]]
        if spec["mode"] == "sheets":
            # node partition and uuids carried by objects only; cases/actions compared flat
            pass
        if got != want:
            ties.append({"what": "object graph before validation differs from the generator's prediction",
                         "want": want[:40], "got": got[:40]})

    # ---- B: model vs real, render by render
    m_err = None
    for r in renders:
        if "err" in r:
            m_err = r["err"]
    n_ok_model = sum(1 for r in renders if "ok" in r)
    if (m_err is not None) != (real["error"] is not None):
        ties.append({"what": "model and real code disagree on whether the container is rejected",
                     "model_error": m_err, "real_error": real["error"], "real_logs": real["logs"][:3]})
    elif m_err is not None:
        if m_err["type"] != real["error"]["type"]:
            ties.append({"what": "different error kind", "model_error": m_err, "real_error": real["error"]})
        elif m_err["type"] == "conflict" and real["error"].get("parsed"):
            name, new, rec = real["error"]["parsed"]
            def cf(u):
                # a flow's own (constructor-invented) uuid; when the build itself failed (add_flow
                # raising) the flow objects are not available to identify it by position
                u = fixed.get(u, u)
                if u.startswith("«flow-uuid-") or (real["flow_uuids"] is None and UUID4.match(u) and u not in fixed):
                    return "«flow»"
                return u
            def mu(j):
                # staged histories only: the recorded uuid may be one the dictionary invented at an earlier validation
                return cf(j["g"]) if "g" in j else "«invented»"

            def ru(u):
                u = cf(u)
                return "«invented»" if spec.get("stages") and UUID4.match(u) and u not in fixed else u
            mm = (str(m_err["name"]), mu(m_err["new"]), mu(m_err["recorded"]))
            rr = (name, ru(new), ru(rec))
            if mm != rr:
                ties.append({"what": "different conflict reported (name, new uuid, recorded uuid)", "model": mm, "real": rr})
    if m_err is None and real["error"] is None and len(real["outs"]) != n_ok_model:
        ties.append({"what": "number of successful renders differs", "model": n_ok_model, "real": len(real["outs"])})
    cn = Canon(fixed)  # one renaming for all renders of the case: a uuid that changes between renders shows
    cm = {}
    for i, out in enumerate(real["outs"]):
        occs, groups = scan_output(out)
        cg = [(n, cn(u)) for n, u in groups]
        co = [(s, k, n, cn(u)) for s, k, n, u in occs]
        if i < len(renders) and "ok" in renders[i]:
            mo, mg = canon_model_render(renders[i]["ok"], cm)
            mo = [tuple(x) for x in mo]
            if mg != cg or mo != co:
                ties.append({"what": f"render {i + 1}: uuids of the real output differ from the model",
                             "real_groups": cg, "model_groups": mg,
                             "diff": [(a, b) for a, b in zip(co, mo) if a != b][:6] or {"len_real": len(co), "len_model": len(mo)}})
        # ---- C: the property's own statement on the real output
        byname = {}
        for s, k, n, u in occs:
            if not u:
                viol.append({"what": "a reference in the rendered container has no uuid", "render": i + 1, "site": s, "kind": k, "name": n})
            byname.setdefault((k, n), set()).add(u)
        for n, u in groups:
            byname.setdefault(("group", n), set()).add(u)
            if not u:
                viol.append({"what": "top-level group without uuid", "render": i + 1, "name": n})
        for (k, n), us in byname.items():
            if len(us) > 1:
                viol.append({"what": "one name is bound to more than one uuid in the rendered container",
                             "render": i + 1, "kind": k, "name": n, "uuids": sorted(map(str, us))})
        gnames = [n for n, _ in groups]
        if len(set(gnames)) != len(gnames):
            viol.append({"what": "a group is listed more than once at top level", "render": i + 1, "groups": gnames})
        for s, k, n, u in occs:
            if k == "group" and n not in gnames:
                viol.append({"what": "a referenced group is not listed at top level", "render": i + 1, "site": s, "name": n})
        defined = {}
        for s, k, n, u in occs:
            if s == "flowDef":
                defined.setdefault(n, u)
        for s, k, n, u in occs:
            if k == "flow" and s != "flowDef" and n in defined and u != defined[n]:
                viol.append({"what": "a reference to a flow the container defines does not carry that flow's uuid",
                             "render": i + 1, "site": s, "name": n, "uuid": u, "flow_uuid": defined[n]})
        # explicit wins (flow placeholders: the flow's own uuid, read from the object graph)
        inv_fixed = {v: k for k, v in fixed.items()}
        for (k, n), us in ex.items():
            if len(us) == 1 and (k, n) not in late:
                want_u = inv_fixed.get(next(iter(us)), next(iter(us)))
                have = byname.get((k, n))
                if have is not None and have != {want_u}:
                    hit = [x for x in lost if x[0] == k and x[1] == n]
                    if hit and all(UUID4.match(str(h)) for h in have) and len(have) == 1:
                        info["known"].append(("F-C06-a", {"kind": k, "name": n, "obj_id": want_u, "got": sorted(have)}))
                    else:
                        viol.append({"what": "an explicitly given uuid did not win over invention", "render": i + 1,
                                     "kind": k, "name": n, "explicit": want_u, "got": sorted(map(str, have))})
        # invented uuids are fresh, well-formed
        for u, lab in cn.map.items():
            if not UUID4.match(str(u)):
                viol.append({"what": "an invented uuid is not a uuid4", "render": i + 1, "uuid": u})
        if i > 0 and out != real["outs"][i - 1] and (out_stage is None or out_stage[i] == out_stage[i - 1]):
            viol.append({"what": "repeated render() changed the output", "render": i + 1,
                         "before": scan_output(real["outs"][i - 1]), "after": (occs, groups)})

    # the dictionaries left behind (order = insertion order; includes names that are not rendered)
    if real.get("dicts") and renders and "ok" in renders[-1] and len(real["outs"]) == len(renders):
        for key in ("flow_dict", "group_dict"):
            rd = [(n, cn(u)) for n, u in real["dicts"][key]]
            md = [(n, canon_model_uid(u, cm)) for n, u in renders[-1]["ok"][key]]
            if rd != md:
                ties.append({"what": f"uuid_dict.{key} after the last render differs from the model", "real": rd, "model": md})

    # rejected when the property demands it / accepted otherwise
    lost_conflict = []
    if reasons and not real_failed:
        # attribution to the known findings needs trigger AND pattern
        rest = []
        for r in reasons:
            if r[0] == "trigger_unknown" and r[2] in only_ref:
                info["known"].append(("F-C06-b", {"trigger_flow": r[2]}))
            elif r[0] == "conflict" and any(x[0] == r[1] and x[1] == r[2] for x in lost) and \
                    len(ex[(r[1], r[2])] - {x[2] for x in lost if x[0] == r[1] and x[1] == r[2]}) <= 1:
                info["known"].append(("F-C06-a", {"kind": r[1], "name": r[2], "conflict_not_seen": sorted(ex[(r[1], r[2])])}))
            else:
                rest.append(r)
        if rest:
            viol.append({"what": "the container must be rejected (two explicit uuids for one name / trigger for a flow that does not exist) but rendered without error",
                         "reasons": rest})
    if not reasons and real_failed:
        parsed = (real["error"] or {}).get("parsed")
        if late and real["error"] and real["error"]["type"] == "conflict" and parsed and any(parsed[0] == n for _, n in late):
            info["late_explicit_rejected"] = True
        else:
            viol.append({"what": "a consistent container was rejected", "error": real["error"], "logs": real["logs"][:3]})
    # ---- C, staged histories: the last render is what a container built in one go renders
    if twin is not None and not reasons and not late and real["outs"]:
        if twin["error"] or not twin["outs"]:
            viol.append({"what": "the same content built in one go is rejected, built in stages it renders", "twin_error": twin["error"]})
        else:
            so, sg = canon_for_twin(real["outs"][-1], fixed)
            to, tg = canon_for_twin(twin["outs"][-1], fixed_map(ex, twin, req))
            if real["error"] is None and (so != to or sg != tg):
                viol.append({"what": "a container built in stages and rendered after every stage ends up with other uuid bindings than the same content built in one go",
                             "staged": {"occs": [x for x, y in zip(so, to) if x != y][:6] or len(so), "groups": sg},
                             "one_go": {"occs": [y for x, y in zip(so, to) if x != y][:6] or len(to), "groups": tg}})
            info["twin_compared"] = real["error"] is None
    if real["error"] and real["error"]["type"].startswith("other:"):
        viol.append({"what": "unexpected exception", "error": real["error"]})
    info["n_outs"] = len(real["outs"])
    info["expected_error"] = bool(reasons)
    info["expect"] = sorted({r[0] for r in reasons}) or ["ok"]
    return ties, viol, info


def repair(spec, fid, detail):
    """The finding's repair transform (DESIGN §2.7): the same input with the finding's trigger
    removed.  F-C06-a: the block's rows written inline (so their obj_id reaches the real
    container); F-C06-b: the mere references to the trigger's flow removed (so the flow is
    neither defined nor mentioned and the trigger must be rejected)."""
    sp = copy.deepcopy(spec)
    if fid == "F-C06-a":
        for f in sp["flows"]:
            rows = []
            for r in f["rows"]:
                rows += copy.deepcopy(sp["blocks"][r["block"]]) if r["t"] == "block" else [r]
            f["rows"] = rows
        sp["blocks"] = {}
    else:
        name = detail["trigger_flow"]
        for f in sp["flows"]:
            if "rows" in f:
                f["rows"] = [r for r in f["rows"] if not (r["t"] == "start" and r["name"] == name)] or [{"t": "msg"}]
            else:
                f["nodes"] = [n for n in f["nodes"] if not (n["t"] == "enter" and n["flow"][0] == name)]
        for c in sp["campaigns"]:
            c["events"] = [e for e in c["events"] if not (e.get("flow") and e["flow"][0] == name)]
    return sp


def worker(specs):
    drv = core.Driver()
    reqs = [model_request(s) for s in specs]
    answers = drv.results(reqs)
    out = []
    for spec, req, m in zip(specs, reqs, answers):
        real = run_real(copy.deepcopy(spec), req)
        twin = None
        if spec.get("stages"):
            tw = twin_of(spec)
            twin = run_real(tw, model_request(tw))
        ties, viol, info = check_case(spec, req, m, real, twin)
        # counterfactual test of every attribution to a known finding
        for fid, detail in list(info["known"]):
            sp2 = repair(spec, fid, detail)
            req2 = model_request(sp2)
            m2 = drv.results([req2])[0]
            real2 = run_real(copy.deepcopy(sp2), req2)
            t2, v2, i2 = check_case(sp2, req2, m2, real2)
            if v2 or any(k[0] == fid for k in i2["known"]):
                viol.append({"what": f"failure looked like {fid} but does not disappear under the finding's repair transform",
                             "repaired_spec": sp2, "still": (v2[:2] or i2["known"][:2])})
        n_occ = len(flat_inputs(req))
        out.append({"ties": ties[:3], "viol": viol[:3], "info": info, "n_occ": n_occ})
    return out


# ------------------------------------------------------------------ generators


def pick_uuid(rng, kind, name, p_explicit, p_conflict, allow_empty=True):
    x = rng.random()
    if x < p_explicit:
        if rng.random() < p_conflict:
            return f"u-{kind}-{name}-b"
        return f"u-{kind}-{name}-a"
    if allow_empty and x > 0.97:
        return ""
    return None


def gen_meta(rng, p=0.35):
    """attributes a group of an export may carry besides name and uuid (a smart group has a
    query); values that are falsy but not None included"""
    if rng.random() >= p:
        return {}
    pool = {"query": ["age > 18", 'gender = "F"', ""], "status": ["ready", "initializing"],
            "system": [False, True], "count": [0, 7]}
    keys = rng.sample(sorted(pool), rng.randint(1, 4))
    return {k: rng.choice(pool[k]) for k in sorted(keys)}


def gen_spec(rng: random.Random, mode: str, avoid_known=True):
    p_explicit = rng.choice([0.0, 0.15, 0.4, 0.8])
    p_conflict = rng.choice([0.0, 0.0, 0.0, 0.1, 0.5])
    gnames = rng.sample(GROUP_NAMES, rng.randint(1, 4))
    # two or three DIFFERENT group names bound to ONE explicit uuid (a renamed group whose former
    # name survives in a flow definition; a sheet obj_id equal to another group's uuid): names, not
    # uuids, are what the property asks to be functional, every name must still be listed
    alias = {}
    if len(gnames) >= 2 and rng.random() < 0.25:
        shared = rng.sample(gnames, rng.randint(2, min(3, len(gnames))))
        alias = {n: shared[0] for n in shared}
        if p_explicit < 0.4:
            p_explicit = rng.choice([0.4, 0.8])
    if mode == "sheets":
        gnames = [g for g in gnames] or ["G1"]
    nflows = rng.randint(0, 3) if mode != "sheets" else rng.randint(1, 3)
    fnames = rng.sample(FLOW_NAMES, nflows)
    if mode == "dict" and nflows >= 2 and rng.random() < 0.1:
        fnames[1] = fnames[0]  # the same flow name twice (same or different uuid)
    # flow names that may be referenced: defined ones and sometimes others
    ref_pool = list(fnames) + rng.sample(FLOW_NAMES, 2)

    def G(allow_empty=True):
        n = rng.choice(gnames)
        return [n, pick_uuid(rng, "group", alias.get(n, n), p_explicit, p_conflict, allow_empty)]

    def list_group(g, meta, at=None):
        at = len(spec["groups"]) if at is None else at
        spec["groups"].insert(at, g)
        spec["group_meta"].insert(at, meta)

    def list_aliased():
        # the container lists one / several of the names sharing a uuid, mostly with the uuid,
        # mostly with attributes
        for n in rng.sample(sorted(alias), rng.randint(1, len(alias))):
            u = pick_uuid(rng, "group", alias[n], max(p_explicit, 0.8), p_conflict, False)
            list_group([n, u], gen_meta(rng, 0.7), rng.randint(0, len(spec["groups"])))

    def F():
        n = rng.choice(ref_pool)
        return [n, pick_uuid(rng, "flow", n, p_explicit, p_conflict)]

    spec = {"mode": mode, "renders": rng.choice([1, 1, 2, 3]), "groups": [], "group_meta": [], "flows": [], "campaigns": [],
            "triggers": [], "blocks": {}}
    if mode == "sheets":
        if rng.random() < 0.2:
            # the sheets are parsed into a container that already lists groups
            for _ in range(rng.randint(1, 3)):
                list_group(G(), gen_meta(rng))
            if alias and rng.random() < 0.7:
                list_aliased()
        nblocks = rng.choice([0, 0, 1, 2])
        for b in range(nblocks):
            rows = []
            for _ in range(rng.randint(1, 3)):
                t = rng.choice(["add", "remove", "split", "start", "msg"])
                if t in ("add", "remove"):
                    n, u = G(False)
                    rows.append({"t": t, "name": n, "obj_id": u})
                elif t == "split":
                    n = rng.choice(gnames)
                    conds = rng.sample(gnames, rng.randint(1, min(2, len(gnames))))
                    rows.append({"t": "split", "name": n, "obj_id": None, "conds": conds})
                elif t == "start":
                    rows.append({"t": "start", "name": rng.choice(ref_pool), "obj_id": None})
                else:
                    rows.append({"t": "msg"})
            spec["blocks"][f"blk{b}"] = rows
        for name in fnames:
            rows = []
            for _ in range(rng.randint(1, 5)):
                t = rng.choice(["add", "remove", "split", "start", "msg", "block"])
                if t == "block" and not spec["blocks"]:
                    t = "add"
                if t in ("add", "remove"):
                    n, u = G(False)
                    rows.append({"t": t, "name": n, "obj_id": u})
                elif t == "split":
                    n, u = G(False)
                    conds = rng.sample(gnames, rng.randint(1, min(3, len(gnames))))
                    if rng.random() < 0.8 and n not in conds:
                        conds[0] = n
                    rows.append({"t": "split", "name": n, "obj_id": u, "conds": conds})
                elif t == "start":
                    n, u = F()
                    rows.append({"t": "start", "name": n, "obj_id": u or None})
                elif t == "block":
                    rows.append({"t": "block", "block": rng.choice(sorted(spec["blocks"]))})
                else:
                    rows.append({"t": "msg"})
            spec["flows"].append({"name": name, "uuid": None, "rows": rows})
        # multi-action nodes: a row merged into the node of the row before it (same node_name)
        for rows in [f["rows"] for f in spec["flows"]] + list(spec["blocks"].values()):
            if rng.random() < 0.5:
                for i in range(1, len(rows)):
                    if rows[i]["t"] in ACTION_ROWS and rows[i - 1]["t"] in ACTION_ROWS and rng.random() < 0.5:
                        rows[i]["merge"] = True
        if rng.random() < 0.25:
            # the same group on several add/remove rows of one flow; a LATER occurrence carries the
            # obj_id and is merged as an extra action into an existing node; the first occurrence
            # has no obj_id (explicit must win) or, rarely, a different one (must be rejected)
            g = rng.choice(gnames)
            first = {"t": rng.choice(["add", "remove"]), "name": g,
                     "obj_id": f"u-group-{g}-b" if rng.random() < 0.25 else None}
            later = {"t": rng.choice(["add", "remove"]), "name": g, "obj_id": f"u-group-{g}-a", "merge": True}
            between = rng.choice([[], [{"t": "msg"}], [{"t": "msg"}, {"t": "msg", "merge": True}],
                                  [{"t": "split", "name": g, "obj_id": None, "conds": [g]}, {"t": "msg"}],
                                  [{"t": rng.choice(["add", "remove"]), "name": rng.choice(gnames), "obj_id": None}]])
            rows = rng.choice(spec["flows"])["rows"]
            at = rng.randint(0, len(rows))
            if at < len(rows) and rows[at].get("merge"):
                rows[at] = dict(rows[at], merge=False)
            rows[at:at] = [first] + copy.deepcopy(between) + [later]
        for i in range(rng.choice([0, 0, 1, 2])):
            evs = []
            for _ in range(rng.randint(0, 3)):
                if rng.random() < 0.7:
                    evs.append({"type": "F", "flow": [rng.choice(ref_pool), None]})
                else:
                    evs.append({"type": "M", "flow": [rng.choice(ref_pool), None] if rng.random() < 0.2 else None})
            spec["campaigns"].append({"name": f"camp{i}", "group": [rng.choice(gnames), None], "events": evs})
    else:
        for _ in range(rng.choice([0, 0, 1, 2, 3])):
            list_group(G(), gen_meta(rng))
        if rng.random() < 0.15 and spec["groups"]:
            # the same group listed twice (with the same or other attributes)
            list_group(list(spec["groups"][0]), dict(spec["group_meta"][0]) if rng.random() < 0.5 else gen_meta(rng))
        if alias and rng.random() < 0.7:
            list_aliased()
        for name in fnames:
            nodes = []
            for _ in range(rng.randint(0, 4)):
                t = rng.choice(["actions", "enter", "split", "msg"])
                if t == "actions":
                    acts = [{"t": rng.choice(["add", "remove"]), "groups": [G() for _ in range(rng.randint(1, 3))]}
                            for _ in range(rng.randint(1, 2))]
                    nodes.append({"t": "actions", "actions": acts})
                elif t == "enter":
                    nodes.append({"t": "enter", "flow": F()})
                elif t == "split":
                    cases, seen = [], set()
                    for _ in range(rng.randint(1, 3)):
                        g = G()
                        if (g[0], g[1]) not in seen:  # add_choice merges identical cases
                            seen.add((g[0], g[1]))
                            cases.append(g)
                    nodes.append({"t": "split", "cases": cases})
                else:
                    nodes.append({"t": "msg"})
            fu = pick_uuid(rng, "flow", name, max(p_explicit, 0.5), p_conflict)
            spec["flows"].append({"name": name, "uuid": fu, "nodes": nodes})
        spec["add_flow"] = rng.random() < 0.6
        for i in range(rng.choice([0, 0, 1, 2])):
            evs = []
            for _ in range(rng.randint(0, 3)):
                if rng.random() < 0.7:
                    evs.append({"type": "F", "flow": F()})
                else:
                    evs.append({"type": "M", "flow": F() if rng.random() < 0.3 else None})
            spec["campaigns"].append({"name": f"camp{i}", "group": G(), "events": evs, "by_name": rng.random() < 0.5})
    # triggers
    for _ in range(rng.choice([0, 0, 1, 2, 3])):
        r = rng.random()
        if fnames and r < 0.8:
            fl = rng.choice(fnames)
        elif r < 0.9:
            fl = rng.choice(UNKNOWN_FLOWS)  # not defined, not mentioned: must be rejected
        else:
            fl = rng.choice(ref_pool)
        fu = pick_uuid(rng, "flow", fl, p_explicit, p_conflict) if mode != "sheets" else None
        if mode == "sheets":
            groups = [[g, None] for g in rng.sample(gnames, rng.randint(0, min(2, len(gnames))))]
            excl = [[g, None] for g in rng.sample(gnames, rng.randint(0, min(2, len(gnames))))]
        else:
            groups = [G() for _ in range(rng.randint(0, 2))]
            excl = [G() for _ in range(rng.randint(0, 2))]
        spec["triggers"].append({"flow": [fl, fu], "groups": groups, "exclude": excl})
    if mode == "sheets":
        # where campaign / trigger / flow rows sit in the index is irrelevant to parse_all
        # (relative order within each type is kept)
        tags = ["f"] * len(spec["flows"]) + ["c"] * len(spec["campaigns"]) + (["t"] if spec["triggers"] else [])
        rng.shuffle(tags)
        spec["interleave"] = tags
    if mode == "sheets" and not spec["groups"] and rng.random() < 0.05:
        spec["via"] = "create_flows"
        spec["renders"] = 1
    if avoid_known:
        req = model_request(spec)
        if trigger_only_referenced(req) or block_objid_lost(spec):
            return None
    return spec


def gen_staged(rng: random.Random):
    """A history: an api-mode container built in 2-3 stages, rendered (1-2 times) after every
    stage.  Every piece of the content gets the stage at which it is added — a flow, a node of a
    flow, a group action of a node, a has_group case of a router, a campaign, an event of a
    campaign, a trigger — never before its parent; later pieces are appended (lists are kept in
    stage order, so the one-go twin holds the same content in the same order).  Kept away from:
    a trigger added before its flow (rightly rejected at that time), a name whose first explicit
    uuid arrives after the name was validated (`late_explicit`), a late has_group case equal to
    an existing one (add_choice only updates the destination then)."""
    spec = None
    mode = rng.choice(["api", "api", "dict"])   # dict: an imported export (from_dict) edited through the API afterwards
    for _ in range(20):
        spec = gen_spec(rng, mode, avoid_known=False)
        if spec["flows"] and any(nd["t"] in ("actions", "split") for f in spec["flows"] for nd in f["nodes"]):
            break
    k = rng.choice([2, 2, 3])
    p_late = rng.choice([0.3, 0.5, 0.8])

    def later(s0):
        return rng.randint(s0, k - 1) if rng.random() < p_late else s0

    for f in spec["flows"]:
        f["stage"] = later(0) if rng.random() < 0.5 else 0
    spec["flows"].sort(key=stage_of)
    for f in spec["flows"]:
        for nd in f["nodes"]:
            nd["stage"] = later(f["stage"])
        f["nodes"].sort(key=stage_of)
        for nd in f["nodes"]:
            if nd["t"] == "actions":
                for a in nd["actions"]:
                    a["stage"] = later(nd["stage"])
                nd["actions"].sort(key=stage_of)
            elif nd["t"] == "split":
                if rng.random() < 0.5:
                    # a router that is validated with some (or none) of its cases and gets more later
                    g = rng.choice(GROUP_NAMES)
                    if all(c[0] != g for c in nd["cases"]):
                        nd["cases"].append([g, None])
                nd["case_stages"] = sorted(later(nd["stage"]) for _ in nd["cases"])
    for c in spec["campaigns"]:
        c["stage"] = later(0)
    spec["campaigns"].sort(key=stage_of)
    for c in spec["campaigns"]:
        for e in c["events"]:
            e["stage"] = later(c["stage"])
        c["events"].sort(key=stage_of)
    for t in spec["triggers"]:
        t["stage"] = later(0)
    spec["stages"] = k
    spec["stage_renders"] = [rng.choice([1, 1, 2]) for _ in range(k)]
    spec["renders"] = sum(spec["stage_renders"])
    # ---- keep away from …
    # (1) a flow defined after it was referenced (its own uuid is a late explicit one): defined earlier
    first = {}
    for kind, name, stg, u, is_def in staged_slots(spec):
        first[kind, name] = min(first.get((kind, name), stg), stg)
    for f in spec["flows"]:
        f["stage"] = min(f["stage"], first["flow", f["name"]])
    spec["flows"].sort(key=stage_of)
    # (2) a trigger added before the flow it starts
    fstage = {}
    for f in spec["flows"]:
        fstage.setdefault(f["name"], f["stage"])
    for t in spec["triggers"]:
        t["stage"] = max(t["stage"], fstage.get(t["flow"][0], 0))
    spec["triggers"].sort(key=stage_of)
    # (3) explicit uuids arriving after the name was validated without one: not given
    late = set(late_explicit(spec))
    if late:
        first = {}
        for kind, name, stg, u, is_def in staged_slots(spec):
            first[kind, name] = min(first.get((kind, name), stg), stg)

        def strip(kind, pair, stg):
            if (kind, pair[0]) in late and stg > first[kind, pair[0]]:
                pair[1] = None

        for f in spec["flows"]:
            for nd in f["nodes"]:
                if nd["t"] == "actions":
                    for a in nd["actions"]:
                        for g in a["groups"]:
                            strip("group", g, max(nd["stage"], a["stage"]))
                elif nd["t"] == "enter":
                    strip("flow", nd["flow"], nd["stage"])
                elif nd["t"] == "split":
                    for g, cs in zip(nd["cases"], nd["case_stages"]):
                        strip("group", g, max(nd["stage"], cs))
        for c in spec["campaigns"]:
            strip("group", c["group"], c["stage"])
            for e in c["events"]:
                if e.get("flow"):
                    strip("flow", e["flow"], max(c["stage"], e["stage"]))
        for t in spec["triggers"]:
            strip("flow", t["flow"], t["stage"])
            for g in t["groups"] + t["exclude"]:
                strip("group", g, t["stage"])
    # (4) has_group cases of one router: identical ones are merged by add_choice; a late case
    # with an explicit uuid would be identical to a validated case of that name
    for f in spec["flows"]:
        for nd in f["nodes"]:
            if nd["t"] == "split":
                seen, names, cases, stages = set(), {}, [], []
                for g, cs in zip(nd["cases"], nd["case_stages"]):
                    if (g[0], g[1]) in seen or (g[1] and names.get(g[0], cs) < cs):
                        continue
                    seen.add((g[0], g[1]))
                    names.setdefault(g[0], cs)
                    cases.append(g)
                    stages.append(cs)
                nd["cases"], nd["case_stages"] = cases, stages
    if late_explicit(spec):
        return None
    if trigger_only_referenced(model_request(spec)):
        return None
    return spec


def staged_strata(spec):
    """what is added to objects that were validated before / to the container, after the first render"""
    out = {}

    def hit(k, n=1):
        out[k] = out.get(k, 0) + n

    hit(f"staged.stages={spec['stages']}")
    for f in spec["flows"]:
        if stage_of(f) > 0:
            hit("staged.flow_added_after_a_render")
        for nd in f["nodes"]:
            ns = max(stage_of(nd), stage_of(f))
            if ns > stage_of(f):
                hit("staged.node_added_to_a_flow_rendered_before")
            if nd["t"] == "actions":
                for a in nd["actions"]:
                    if stage_of(a) > ns:
                        hit("staged.group_action_added_to_a_node_rendered_before")
            elif nd["t"] == "split":
                old = {g[0] for g, cs in zip(nd["cases"], case_stages(nd)) if cs <= ns}
                for g, cs in zip(nd["cases"], case_stages(nd)):
                    if cs > ns:
                        hit("staged.has_group_case_added_to_a_router_rendered_before")
                        if g[1]:
                            hit("staged.has_group_case_added_to_a_router_rendered_before.with_explicit_uuid")
                        if g[0] in old:
                            hit("staged.has_group_case_added_to_a_router_rendered_before.group_already_tested_by_that_router")
                if not old and any(cs > ns for cs in case_stages(nd)):
                    hit("staged.router_rendered_without_cases_gets_its_first_case_later")
    for c in spec["campaigns"]:
        if stage_of(c) > 0:
            hit("staged.campaign_added_after_a_render")
        for e in c["events"]:
            if stage_of(e) > stage_of(c):
                hit("staged.event_added_to_a_campaign_rendered_before")
    for t in spec["triggers"]:
        if stage_of(t) > 0:
            hit("staged.trigger_added_after_a_render")
    return out


def merge_strata(spec):
    out = {"merged_rows": 0, "merged_row_with_obj_id": 0, "merged_obj_id_after_same_group_without_or_other_obj_id": 0}
    for rows in [f["rows"] for f in spec["flows"]] + list(spec["blocks"].values()):
        seen = {}
        for i, r in enumerate(rows):
            if r["t"] in ("add", "remove"):
                if merges(rows, i):
                    out["merged_rows"] += 1
                    if r["obj_id"]:
                        out["merged_row_with_obj_id"] += 1
                        if r["name"] in seen and seen[r["name"]] != r["obj_id"]:
                            out["merged_obj_id_after_same_group_without_or_other_obj_id"] += 1
                seen.setdefault(r["name"], r["obj_id"])
            elif merges(rows, i):
                out["merged_rows"] += 1
    return out


def alias_strata(spec):
    """what the spec holds of: listed groups with attributes, different names on one explicit uuid"""
    names_of, uuids_of, referenced = {}, {}, set()
    listed = {id(g) for g in spec["groups"]}
    for kind, name, obj, key in iter_slots(spec):
        if kind != "group":
            continue
        if id(obj) not in listed:
            referenced.add(name)
        if obj[key]:
            names_of.setdefault(obj[key], set()).add(name)
            uuids_of.setdefault(name, set()).add(obj[key])
    if spec["mode"] == "sheets":
        for c in spec["campaigns"]:
            referenced.add(c["group"][0])
        for t in spec["triggers"]:
            referenced.update(g[0] for g in t["groups"] + t["exclude"])
        for rows in [f["rows"] for f in spec["flows"]] + list(spec["blocks"].values()):
            for r in rows:
                if r["t"] == "split":
                    referenced.update(r["conds"])
    meta = group_meta(spec)
    out = {"groups.listed_before_validation": len(spec["groups"]),
           "groups.listed_with_attributes": sum(1 for m in meta if m),
           "alias.case_with_two_names_on_one_explicit_uuid": int(any(len(ns) > 1 for ns in names_of.values())),
           "alias.listed_group_with_attributes_shares_its_uuid_with_another_referenced_name": 0}
    for (n, _), m in zip(spec["groups"], meta):
        if m and any((names_of[u] - {n}) & referenced for u in uuids_of.get(n, ())):
            out["alias.listed_group_with_attributes_shares_its_uuid_with_another_referenced_name"] = 1
    return out


# ------------------------------------------------------------------ neighbours of a disagreeing case


def iter_slots(spec):
    """every place of the spec that holds a (kind, name, uuid): (kind, name, container, key)"""
    for g in spec["groups"]:
        yield "group", g[0], g, 1
    for f in spec["flows"]:
        if "rows" in f:
            rowsets = [f["rows"]]
        else:
            rowsets = []
            yield "flow", f["name"], f, "uuid"
            for nd in f["nodes"]:
                if nd["t"] == "actions":
                    for a in nd["actions"]:
                        for g in a["groups"]:
                            yield "group", g[0], g, 1
                elif nd["t"] == "enter":
                    yield "flow", nd["flow"][0], nd["flow"], 1
                elif nd["t"] == "split":
                    for g in nd["cases"]:
                        yield "group", g[0], g, 1
        for rows in rowsets:
            for r in rows:
                if r["t"] in ("add", "remove", "split"):
                    yield "group", r["name"], r, "obj_id"
                elif r["t"] == "start":
                    yield "flow", r["name"], r, "obj_id"
    for rows in spec["blocks"].values():
        for r in rows:
            if r["t"] in ("add", "remove", "split"):
                yield "group", r["name"], r, "obj_id"
            elif r["t"] == "start":
                yield "flow", r["name"], r, "obj_id"
    if spec["mode"] != "sheets":
        for c in spec["campaigns"]:
            yield "group", c["group"][0], c["group"], 1
            for e in c["events"]:
                if e.get("flow"):
                    yield "flow", e["flow"][0], e["flow"], 1
        for t in spec["triggers"]:
            yield "flow", t["flow"][0], t["flow"], 1
            for g in t["groups"] + t["exclude"]:
                yield "group", g[0], g, 1


def neighbour(spec, rng):
    """A mutation of a case on which model and code disagreed: the same shape with the explicit
    uuids moved between the occurrences of a name (permuted / only one kept, on a random
    occurrence / two different ones), merged rows toggled, rows or nodes rotated, the rest of
    the container dropped."""
    sp = copy.deepcopy(spec)
    sp.pop("via", None)
    for _ in range(rng.randint(1, 3)):
        classes = {}
        for kind, name, obj, key in iter_slots(sp):
            classes.setdefault((kind, name), []).append((obj, key))
        multi = [k for k, v in classes.items() if len(v) >= 2]
        op = rng.choice(["permute", "one", "two", "merge", "rotate", "shrink", "clear"])
        if op in ("permute", "one", "two", "clear") and classes:
            key = rng.choice(multi) if multi and rng.random() < 0.85 else rng.choice(sorted(classes))
            slots = classes[key]
            tag = f"u-{key[0]}-{key[1]}-"
            if op == "permute":
                vals = [o[k] for o, k in slots]
                rng.shuffle(vals)
                for (o, k), v in zip(slots, vals):
                    o[k] = v
            elif op == "clear":
                for o, k in slots:
                    o[k] = None
            else:
                for o, k in slots:
                    o[k] = None
                chosen = rng.sample(slots, min(len(slots), 1 if op == "one" else 2))
                for (o, k), suffix in zip(chosen, ["a", "b"]):
                    o[k] = tag + suffix
        elif op == "merge" and sp["mode"] == "sheets":
            rowsets = [f["rows"] for f in sp["flows"]] + list(sp["blocks"].values())
            cands = [(rows, i) for rows in rowsets for i in range(1, len(rows))
                     if rows[i]["t"] in ACTION_ROWS and rows[i - 1]["t"] in ACTION_ROWS]
            if cands:
                rows, i = rng.choice(cands)
                rows[i]["merge"] = not rows[i].get("merge")
        elif op == "rotate" and sp["flows"]:
            f = rng.choice(sp["flows"])
            seq = f.get("rows") if "rows" in f else f["nodes"]
            if len(seq) >= 2:
                j = rng.randrange(1, len(seq))
                seq[:] = seq[j:] + seq[:j]
        elif op == "shrink":
            if len(sp["flows"]) > 1 and rng.random() < 0.5:
                keep = rng.choice(sp["flows"])
                if sp["mode"] != "sheets" or all(t["flow"][0] == keep["name"] for t in sp["triggers"]):
                    sp["flows"] = [keep]
            elif rng.random() < 0.5:
                sp["campaigns"] = []
            else:
                sp["triggers"] = []
    # flows of a dict/api container never have a falsy uuid slot filled by the generator's "flow" class
    if sp["mode"] != "sheets":
        for f in sp["flows"]:
            for nd in f["nodes"]:
                if nd["t"] == "split":  # add_choice merges identical cases
                    seen, cases = set(), []
                    for g in nd["cases"]:
                        if (g[0], g[1]) not in seen:
                            seen.add((g[0], g[1]))
                            cases.append(g)
                    nd["cases"] = cases
    else:
        tags = ["f"] * len(sp["flows"]) + ["c"] * len(sp["campaigns"]) + (["t"] if sp["triggers"] else [])
        sp["interleave"] = tags
    req = model_request(sp)
    if trigger_only_referenced(req):
        return None
    return sp


def known_finding_specs():
    """deterministic stream exercising the open findings"""
    a = {"mode": "sheets", "renders": 1, "groups": [], "campaigns": [], "triggers": [],
         "blocks": {"blk0": [{"t": "split", "name": "G2", "obj_id": "u-group-G2-a", "conds": ["G2"]},
                             {"t": "start", "name": "F5", "obj_id": "u-flow-F5-a"},
                             {"t": "add", "name": "G3", "obj_id": "u-group-G3-a"}]},
         "flows": [{"name": "F1", "uuid": None, "rows": [{"t": "block", "block": "blk0"},
                                                          {"t": "split", "name": "G1", "obj_id": "u-group-G1-a", "conds": ["G1"]}]}]}
    b_sheets = {"mode": "sheets", "renders": 1, "groups": [], "campaigns": [], "blocks": {},
                "flows": [{"name": "F1", "uuid": None, "rows": [{"t": "start", "name": "Ghost", "obj_id": None}]}],
                "triggers": [{"flow": ["Ghost", None], "groups": [], "exclude": []}]}
    b_api = {"mode": "api", "renders": 2, "groups": [], "campaigns": [], "blocks": {}, "add_flow": True,
             "flows": [{"name": "F1", "uuid": "u-flow-F1-a", "nodes": [{"t": "enter", "flow": ["Ghost", None]}]}],
             "triggers": [{"flow": ["Ghost", None], "groups": [], "exclude": []}]}
    b_dict = {"mode": "dict", "renders": 1, "groups": [], "blocks": {},
              "flows": [{"name": "F1", "uuid": "u-flow-F1-a", "nodes": []}],
              "campaigns": [{"name": "c", "group": ["G1", None], "events": [{"type": "F", "flow": ["Ghost", None]}]}],
              "triggers": [{"flow": ["Ghost", None], "groups": [], "exclude": []}]}
    return [("F-C06-a", a), ("F-C06-b", b_sheets), ("F-C06-b", b_api), ("F-C06-b", b_dict)]


CORPUS = [
    # explicit uuid at the last occurrence only (trigger exclude group), names shared everywhere
    {"mode": "api", "renders": 3, "add_flow": True, "blocks": {}, "groups": [["G1", None]],
     "flows": [{"name": "F1", "uuid": None, "nodes": [{"t": "actions", "actions": [{"t": "add", "groups": [["G1", None], ["G2", None]]}]},
                                                        {"t": "split", "cases": [["G1", None], ["G2", "u-group-G2-a"]]},
                                                        {"t": "enter", "flow": ["F1", None]}]}],
     "campaigns": [{"name": "c", "group": ["G1", None], "events": [{"type": "F", "flow": ["F1", None]}, {"type": "M", "flow": None}]}],
     "triggers": [{"flow": ["F1", None], "groups": [["G2", None]], "exclude": [["G1", "u-group-G1-a"]]}]},
    # two different explicit uuids: first in a case, second in the old group list
    {"mode": "dict", "renders": 1, "blocks": {}, "groups": [["G1", "u-group-G1-b"]],
     "flows": [{"name": "F1", "uuid": "u-flow-F1-a", "nodes": [{"t": "split", "cases": [["G1", "u-group-G1-a"]]}]}],
     "campaigns": [], "triggers": []},
    # trigger for a flow nobody mentions
    {"mode": "dict", "renders": 1, "blocks": {}, "groups": [], "flows": [{"name": "F1", "uuid": "u-flow-F1-a", "nodes": []}],
     "campaigns": [], "triggers": [{"flow": ["Nowhere", None], "groups": [], "exclude": []}]},
    # group and flow with the same name are independent
    {"mode": "api", "renders": 2, "add_flow": False, "blocks": {}, "groups": [["Shared", "u-group-Shared-a"]],
     "flows": [{"name": "Shared", "uuid": "u-flow-Shared-a", "nodes": [{"t": "enter", "flow": ["Shared", None]},
                                                                       {"t": "actions", "actions": [{"t": "remove", "groups": [["Shared", None]]}]}]}],
     "campaigns": [], "triggers": [{"flow": ["Shared", None], "groups": [["Shared", None]], "exclude": []}]},
    # explicit obj_id on a reference to a flow defined by a sheet (the flow's own uuid is invented): conflict
    {"mode": "sheets", "renders": 1, "blocks": {}, "groups": [], "campaigns": [], "triggers": [],
     "flows": [{"name": "F1", "uuid": None, "rows": [{"t": "msg"}]},
               {"name": "F2", "uuid": None, "rows": [{"t": "start", "name": "F1", "obj_id": "u-flow-F1-a"}]}]},
    # the only obj_id of a group sits on a row merged into an existing node (multi-action node, same
    # node_name): it is recorded nowhere at parse time, its Group object must carry it
    {"mode": "sheets", "renders": 2, "blocks": {}, "groups": [], "interleave": ["f", "t", "c"],
     "flows": [{"name": "F1", "uuid": None, "rows": [{"t": "add", "name": "G1", "obj_id": None}, {"t": "msg"},
                                                      {"t": "remove", "name": "G1", "obj_id": "u-group-G1-a", "merge": True},
                                                      {"t": "split", "name": "G1", "obj_id": None, "conds": ["G1"]}]}],
     "campaigns": [{"name": "c", "group": ["G1", None], "events": [{"type": "F", "flow": ["F1", None]}]}],
     "triggers": [{"flow": ["F1", None], "groups": [["G1", None]], "exclude": []}, {"flow": ["F1", None], "groups": [], "exclude": [["G1", None]]}]},
    # … and a different obj_id on the first row: must be rejected
    {"mode": "sheets", "renders": 1, "blocks": {}, "groups": [], "campaigns": [], "triggers": [],
     "flows": [{"name": "F1", "uuid": None, "rows": [{"t": "add", "name": "G1", "obj_id": "u-group-G1-b"}, {"t": "msg"},
                                                      {"t": "remove", "name": "G1", "obj_id": "u-group-G1-a", "merge": True}]}]},
    # falsy "" uuids behave like None
    {"mode": "dict", "renders": 2, "blocks": {}, "groups": [["G1", ""]],
     "flows": [{"name": "F1", "uuid": "", "nodes": [{"t": "split", "cases": [["G1", ""]]}, {"t": "enter", "flow": ["F1", ""]}]}],
     "campaigns": [], "triggers": [{"flow": ["F1", ""], "groups": [["G1", "u-group-G1-a"]], "exclude": []}]},
    # an export listing a smart group (query); a flow and a trigger still refer to the same uuid under
    # another name (a renamed group): both names are bound to that uuid, both must be listed
    {"mode": "dict", "renders": 2, "blocks": {}, "groups": [["G1", "u-group-G1-a"]], "group_meta": [{"query": "age > 18"}],
     "flows": [{"name": "F1", "uuid": "u-flow-F1-a", "nodes": [{"t": "actions", "actions": [{"t": "add", "groups": [["G2", "u-group-G1-a"]]}]},
                                                                 {"t": "split", "cases": [["G2", "u-group-G1-a"]]}]}],
     "campaigns": [], "triggers": [{"flow": ["F1", None], "groups": [], "exclude": [["G2", "u-group-G1-a"]]}]},
    # the same through the API: the shared uuid of the second name is given at one place only (campaign
    # group); the listed groups carry status / system / count; a third, plain listed group
    {"mode": "api", "renders": 3, "add_flow": True, "blocks": {},
     "groups": [["G3", "u-group-G3-a"], ["G1", "u-group-G1-a"], ["Shared", None]],
     "group_meta": [{}, {"status": "ready", "system": False, "count": 0}, {"count": 7}],
     "flows": [{"name": "F1", "uuid": None, "nodes": [{"t": "actions", "actions": [{"t": "remove", "groups": [["G1", None], ["G2", None], ["Shared", None]]}]},
                                                        {"t": "split", "cases": [["G2", None], ["G3", None]]}]}],
     "campaigns": [{"name": "c", "group": ["G2", "u-group-G1-a"], "by_name": True, "events": []}],
     "triggers": [{"flow": ["F1", None], "groups": [["G2", None]], "exclude": [["G1", None]]}]},
    # sheets parsed into a container that already lists a smart group; rows give that group's uuid as
    # obj_id of another group name
    {"mode": "sheets", "renders": 2, "blocks": {}, "groups": [["G1", "u-group-G1-a"], ["G3", None]],
     "group_meta": [{"query": "age > 18", "count": 0}, {}], "interleave": ["f", "t"], "campaigns": [],
     "flows": [{"name": "F1", "uuid": None, "rows": [{"t": "add", "name": "G2", "obj_id": "u-group-G1-a"},
                                                      {"t": "split", "name": "G2", "obj_id": "u-group-G1-a", "conds": ["G2", "G3"]}]}],
     "triggers": [{"flow": ["F1", None], "groups": [["G2", None]], "exclude": [["G1", None]]}]},
    # a listed group with attributes and WITHOUT uuid gets the uuid given elsewhere, shared with another name
    {"mode": "dict", "renders": 2, "blocks": {}, "groups": [["G1", None], ["G1", None]], "group_meta": [{"query": ""}, {"system": True}],
     "flows": [{"name": "F1", "uuid": "u-flow-F1-a", "nodes": [{"t": "split", "cases": [["G2", "u-group-G1-a"], ["G1", "u-group-G1-a"]]}]}],
     "campaigns": [], "triggers": []},
    # ---- staged histories: built in stages through the API, rendered after every stage
    # a router rendered with one case gets two more (one with its uuid, one without); a trigger
    # restricted to one of the new groups is added with them
    {"mode": "api", "add_flow": True, "blocks": {}, "groups": [], "group_meta": [], "campaigns": [],
     "stages": 2, "stage_renders": [1, 2], "renders": 3,
     "flows": [{"name": "F1", "uuid": None, "stage": 0, "nodes": [
         {"t": "split", "stage": 0, "cases": [["G1", None], ["G2", "u-group-G2-a"], ["G3", None]], "case_stages": [0, 1, 1]}]}],
     "triggers": [{"flow": ["F1", None], "groups": [["G2", None]], "exclude": [], "stage": 1}]},
    # a router rendered WITHOUT cases, cases come in two further stages; the groups are used elsewhere
    # (listed group, action added to an old node, campaign added later, event added to an old campaign)
    {"mode": "api", "add_flow": False, "blocks": {}, "groups": [["G1", "u-group-G1-a"]], "group_meta": [{"query": "age > 18"}],
     "stages": 3, "stage_renders": [1, 1, 1], "renders": 3,
     "flows": [{"name": "F1", "uuid": "u-flow-F1-a", "stage": 0, "nodes": [
         {"t": "split", "stage": 0, "cases": [["G1", None], ["G2", None], ["G2", "u-group-G2-a"], ["G4", None]], "case_stages": [1, 1, 1, 2]},
         {"t": "actions", "stage": 0, "actions": [{"t": "add", "stage": 0, "groups": [["G3", None]]},
                                                   {"t": "remove", "stage": 2, "groups": [["G2", None], ["G4", None]]}]},
         {"t": "enter", "stage": 1, "flow": ["F2", None]}]},
               {"name": "F2", "uuid": None, "stage": 1, "nodes": [{"t": "split", "stage": 2, "cases": [["G4", None]], "case_stages": [2]}]}],
     "campaigns": [{"name": "c0", "group": ["G3", None], "by_name": True, "stage": 0,
                    "events": [{"type": "F", "flow": ["F1", None], "stage": 0}, {"type": "F", "flow": ["F2", None], "stage": 1}]},
                   {"name": "c1", "group": ["G2", None], "by_name": False, "stage": 1, "events": []}],
     "triggers": [{"flow": ["F1", None], "groups": [], "exclude": [["G3", None]], "stage": 0},
                  {"flow": ["F2", None], "groups": [["G4", None]], "exclude": [], "stage": 2}]},
    # an imported export (from_dict) is rendered, then edited through the API: a case and a group action
    # added to the imported router / node, a flow, a campaign and a trigger added to the container
    {"mode": "dict", "add_flow": True, "blocks": {}, "groups": [["G1", "u-group-G1-a"], ["G2", None]], "group_meta": [{"count": 7}, {}],
     "stages": 2, "stage_renders": [2, 2], "renders": 4,
     "flows": [{"name": "F1", "uuid": "u-flow-F1-a", "stage": 0, "nodes": [
         {"t": "split", "stage": 0, "cases": [["G1", None], ["G3", None], ["G2", None]], "case_stages": [0, 1, 1]},
         {"t": "actions", "stage": 0, "actions": [{"t": "add", "stage": 0, "groups": [["G2", None]]},
                                                   {"t": "add", "stage": 1, "groups": [["G3", "u-group-G3-a"], ["G1", None]]}]}]},
               {"name": "F2", "uuid": None, "stage": 1, "nodes": [{"t": "enter", "stage": 1, "flow": ["F1", None]},
                                                                   {"t": "split", "stage": 1, "cases": [["G3", None]], "case_stages": [1]}]}],
     "campaigns": [{"name": "c0", "group": ["G3", None], "by_name": True, "stage": 1, "events": [{"type": "F", "flow": ["F2", None], "stage": 1}]}],
     "triggers": [{"flow": ["F1", None], "groups": [["G1", None]], "exclude": [], "stage": 0},
                  {"flow": ["F2", None], "groups": [["G3", None]], "exclude": [["G2", None]], "stage": 1}]},
    # two different explicit uuids, the second one on a case added after a render: must be rejected
    {"mode": "api", "add_flow": True, "blocks": {}, "groups": [], "group_meta": [], "campaigns": [], "triggers": [],
     "stages": 2, "stage_renders": [1, 1], "renders": 2,
     "flows": [{"name": "F1", "uuid": None, "stage": 0, "nodes": [
         {"t": "split", "stage": 0, "cases": [["G1", "u-group-G1-a"], ["G1", "u-group-G1-b"]], "case_stages": [0, 1]}]}]},
    # as coded (`late_explicit`): the first explicit uuid of a name arrives after the name was rendered
    # with an invented one → ValueError(multiple uuids); tie only, the rejection is tolerated
    {"mode": "api", "add_flow": True, "blocks": {}, "groups": [], "group_meta": [], "campaigns": [], "triggers": [],
     "stages": 2, "stage_renders": [1, 1], "renders": 2,
     "flows": [{"name": "F1", "uuid": None, "stage": 0, "nodes": [
         {"t": "split", "stage": 0, "cases": [["G1", None], ["G1", "u-group-G1-a"]], "case_stages": [0, 1]}]}]},
    # … a flow that an enter_flow action of a rendered flow refers to is defined afterwards (add_flow raises)
    {"mode": "api", "add_flow": True, "blocks": {}, "groups": [], "group_meta": [], "campaigns": [], "triggers": [],
     "stages": 2, "stage_renders": [1, 1], "renders": 2,
     "flows": [{"name": "F1", "uuid": None, "stage": 0, "nodes": [{"t": "enter", "stage": 0, "flow": ["F2", None]}]},
               {"name": "F2", "uuid": None, "stage": 1, "nodes": []}]},
    # three plain names on one uuid (no attributes anywhere)
    {"mode": "api", "renders": 2, "add_flow": False, "blocks": {}, "groups": [["G1", "u-group-G1-a"], ["G2", "u-group-G1-a"]],
     "flows": [{"name": "F1", "uuid": "u-flow-F1-a", "nodes": [{"t": "actions", "actions": [{"t": "add", "groups": [["G3", "u-group-G1-a"], ["G2", None]]}]}]}],
     "campaigns": [], "triggers": []},
]


# ------------------------------------------------------------------ run


def _fold(ck, specs, results, stream):
    for spec, r in zip(specs, results):
        info = r["info"]
        key = json.dumps(spec, sort_keys=True, ensure_ascii=False)
        ck.case(key, nontrivial=r["n_occ"] >= 2, sample={"mode": spec["mode"], "spec": spec} if r["n_occ"] >= 6 else None)
        ck.count(f"{stream}.{spec['mode']}")
        if spec.get("via"):
            ck.count(f"{stream}.sheets.via_create_flows_csv_files")
        if spec["mode"] == "sheets":
            for k, v in merge_strata(spec).items():
                ck.count(f"sheets.{k}", v)
        for k, v in alias_strata(spec).items():
            ck.count(k, v)
        if spec["mode"] == "sheets" and spec["groups"]:
            ck.count(f"{stream}.sheets.parsed_into_container_listing_groups")
        if spec.get("stages"):
            ck.count(f"{stream}.{spec['mode']}.staged")
            for k, v in staged_strata(spec).items():
                ck.count(k, v)
            if info.get("twin_compared"):
                ck.count("staged.last_render_compared_with_the_one_go_twin")
            if info["error"] and info.get("n_outs"):
                ck.count("staged.rejected_at_a_later_stage_after_successful_renders")
            if info.get("late_explicit_rejected"):
                ck.count("staged.late_explicit_uuid_rejected_as_coded")
        ck.count(f"renders={spec['renders']}")
        ck.count("outcome." + (info["error"] or "rendered"))
        ck.count("occurrences", r["n_occ"])
        if info.get("expected_error"):
            ck.count("property_demands_error")
        for e in info.get("expect", []):
            ck.count("expect." + e)
        for t in r["ties"]:
            ck.tie_break(t["what"], {"spec": spec, "detail": t})
        for fid, ex in info["known"]:
            rec = next((f for f in ck.findings if f["id"] == fid and f.get("status") == "open"), None)
            if rec is None:
                ck.violation(f"failure matching {fid}, which is not an open known finding", {"spec": spec, "detail": ex})
            else:
                ck.known(fid, rec["what"], {"spec": spec, "detail": ex})
                ck.count(f"known_{fid}_cases")
        for v in r["viol"]:
            ck.violation(v["what"], {"spec": spec, "detail": v})


def run(ck: core.Check):
    ck.lean = core.lean_step("C06", thorough=(ck.tier == "thorough"))
    ck.rule = (
        "containers generated from an abstract spec and built three ways (content-index sheets parsed by "
        "ContentIndexParser, export dict through RapidProContainer.from_dict, direct API calls), group/flow names drawn "
        "from small pools so that they are shared across flows, campaigns and triggers, explicit uuids on a random "
        "subset of occurrences (probability 0/0.15/0.4/0.8 per occurrence, a second conflicting uuid with probability "
        "0/0.1/0.5), rendered 1-3 times; the containers may list groups before validation (from_dict, "
        "RapidProContainer(groups=…), also as the target the sheets are parsed into), a third of those groups carrying "
        "query/status/system/count; in a quarter of the cases two or three different group names are bound to one "
        "explicit uuid (renamed group / obj_id equal to another group's uuid), the listed ones mostly with attributes; one case in seven is a STAGED history: a container built through the API (two thirds) or imported with from_dict and then edited through the API (one third) in 2-3 stages and rendered 1-2 times after every stage, each flow / node / group action / has_group case / campaign / event / trigger added at a random stage not before its parent (so routers, nodes, flows, campaigns that were already rendered get more content), every render compared with the model (`uuid.staged`: Uuid.runStage) and judged by the statement, the last render compared with the render of the same content built in one go up to invented uuids; non-trivial = at least two reference occurrences; distinct = distinct specs"
    )
    ck.assumptions = [
        "Python dict keeps insertion order and the position of an updated key (modelled by dset; exercised by the tie on the order of the top-level group list)",
        "uuid.uuid4 returns fresh ids (every invented id of every output is checked to be a well-formed uuid4 different from all others; entropy assumed)",
        "the spec → model-request translation of the harness (cross-checked on every case against the real object graph before validation)",
    ]
    ck.partial_gap = [
        "trigger_unknown_flow_rejected is proved for the reading the code implements (flow name not in flow_dict = neither defined nor mentioned by any action/campaign/obj_id); the full reading (not DEFINED) is false on the unchanged tree: Lean negative witness trigger_unknown_flow_rejected_full_false, known finding F-C06-b",
        "sheet rows merged into an existing node (same node_name) record nothing at parse time (modelled as coded: only their Group object carries the obj_id); merging of start_new_flow / split rows does not exist in the code",
        "nested insert_as_block (a block inserting a block) is neither generated nor modelled (each level gets its own throw-away container in the code)",
        "staged histories (content added between two renders) are generated through the public API only (add_flow, add_node, add_action, add_choice, add_campaign, add_event, add_trigger on an api-built or from_dict-imported container; sheets parsed into a container that was rendered before are not); removing or editing objects between renders is not explored",
        "a name whose FIRST explicit uuid arrives after the name was validated (rendered with an invented uuid), e.g. a flow defined by add_flow after a rendered flow referred to it: the unchanged code rejects the history with ValueError(multiple uuids); the statement does not say what should happen, modelled as coded, exercised by two corpus shapes (rejection tolerated), kept out of the random stream",
    ]
    if not core.DRIVER_BIN.exists():
        raise core.Infra("driver not built:\n" + ck.lean.log[-2000:])
    import rpft.rapidpro.models.containers  # noqa: F401

    # constructor invariant behind `defined_flow_uuid` (hypothesis `d.given = some u`; the Lean witness
    # defined_flow_uuid_needs_given cannot be built with the real classes)
    from rpft.rapidpro.models.containers import FlowContainer
    for u in (None, ""):
        ck.evaluations += 1
        a, b = FlowContainer("x", uuid=u).uuid, FlowContainer.from_dict({"name": "x", "uuid": u, "nodes": []}).uuid
        if not (a and b and UUID4.match(a) and UUID4.match(b)):
            ck.violation("a flow definition without uuid does not get one at construction", {"uuid_argument": u, "got": [a, b]})

    quick = ck.tier == "quick"
    n_cases = 12000 if quick else 200000

    # corpus
    specs = [copy.deepcopy(s) for s in CORPUS]
    _fold(ck, specs, worker(specs), "corpus")

    # known-finding stream (deterministic)
    for fid, spec in known_finding_specs():
        r = worker([spec])[0]
        ck.count("known_stream")
        ck.evaluations += 1
        for t in r["ties"]:
            ck.tie_break(t["what"], {"spec": spec, "detail": t})
        hit = [k for k in r["info"]["known"] if k[0] == fid]
        rec = next((f for f in ck.findings if f["id"] == fid and f.get("status") == "open"), None)
        if hit and rec:
            ck.known(fid, rec["what"], {"spec": spec, "detail": hit[0][1]})
        elif hit and not rec:
            ck.violation(f"{fid} reproduced but it is not recorded as an open finding", {"spec": spec, "detail": hit[0][1]})
        elif not hit and rec:
            ck.notes.append(f"{fid}: the recorded defect did not reproduce on its deterministic input (fixed?)")
        for v in r["viol"]:
            ck.violation(v["what"], {"spec": spec, "detail": v})

    # main stream
    def gen(n, seed_rng):
        out = []
        while len(out) < n:
            mode = seed_rng.choice(["sheets", "dict", "api", "sheets", "dict", "api", "staged"])
            s = gen_staged(seed_rng) if mode == "staged" else gen_spec(seed_rng, mode)
            if s is not None:
                out.append(s)
        return out

    specs = gen(n_cases, ck.rng)
    res = par.pmap(worker, core.shard(specs, par.NPROC * 2))
    flat_specs = [s for sh in core.shard(specs, par.NPROC * 2) for s in sh]
    flat_res = [r for sh in res for r in sh]
    _fold(ck, flat_specs, flat_res, "main")

    for need in ("main.sheets", "main.dict", "main.api", "expect.conflict", "expect.trigger_unknown", "expect.ok", "renders=3",
                 "sheets.merged_rows", "sheets.merged_row_with_obj_id",
                 "sheets.merged_obj_id_after_same_group_without_or_other_obj_id",
                 "groups.listed_with_attributes", "alias.case_with_two_names_on_one_explicit_uuid",
                 "alias.listed_group_with_attributes_shares_its_uuid_with_another_referenced_name",
                 "main.sheets.parsed_into_container_listing_groups", "main.api.staged", "main.dict.staged",
                 "staged.has_group_case_added_to_a_router_rendered_before",
                 "staged.has_group_case_added_to_a_router_rendered_before.with_explicit_uuid",
                 "staged.group_action_added_to_a_node_rendered_before", "staged.node_added_to_a_flow_rendered_before",
                 "staged.flow_added_after_a_render", "staged.trigger_added_after_a_render",
                 "staged.campaign_added_after_a_render", "staged.event_added_to_a_campaign_rendered_before",
                 "staged.last_render_compared_with_the_one_go_twin"):
        if not ck.strata.get(need):
            raise core.Infra(f"generator self-check: stratum {need} is empty")

    if (ck.tie_breaks or not ck.lean.ok) and not ck.violations:
        ck.search_ran = True
        rng2 = random.Random(ck.seed + 1)
        # (i) the shapes on which model and code disagreed: mutations of those very cases
        seeds, seen = [], set()
        for t in ck.tie_breaks:
            sp = (t or {}).get("detail", {}).get("spec")
            if sp:
                key = json.dumps(sp, sort_keys=True)
                if key not in seen:
                    seen.add(key)
                    seeds.append(sp)
        seeds.sort(key=lambda sp: len(json.dumps(sp)))
        specs = []
        for sp in seeds[:60]:
            for _ in range(150):
                nb = neighbour(sp, rng2)
                if nb is not None:
                    specs.append(nb)
        if specs:
            res = par.pmap(worker, core.shard(specs, par.NPROC * 2))
            flat_specs = [s for sh in core.shard(specs, par.NPROC * 2) for s in sh]
            _fold(ck, flat_specs, [r for sh in res for r in sh], "search_neighbours")
    if (ck.tie_breaks or not ck.lean.ok) and not ck.violations and quick:
        # (ii) the thorough-size generator
        specs = gen(12000, rng2)
        res = par.pmap(worker, core.shard(specs, par.NPROC * 2))
        flat_specs = [s for sh in core.shard(specs, par.NPROC * 2) for s in sh]
        _fold(ck, flat_specs, [r for sh in res for r in sh], "search")


def replay(path):
    rec = json.load(open(path))
    print(json.dumps(rec, indent=1, ensure_ascii=False)[:6000])
    rp = rec.get("replay", {})
    spec = rp.get("spec")
    if spec:
        req = model_request(spec)
        real = run_real(copy.deepcopy(spec), req)
        print("real error:", real["error"], "logs:", real["logs"][:3])
        for i, out in enumerate(real["outs"]):
            occs, groups = scan_output(out)
            print(f"render {i + 1}: groups={groups}")
            for o in occs:
                print("   ", o)
        m = core.Driver().results([req])[0]
        print("model:", json.dumps(m, ensure_ascii=False)[:3000])
        twin = None
        if spec.get("stages"):
            tw = twin_of(spec)
            twin = run_real(tw, model_request(tw))
        ties, viol, info = check_case(spec, req, m, real, twin)
        print("violations:", json.dumps(viol, ensure_ascii=False, default=str)[:3000])
        return 1 if viol else 0
    return 0
