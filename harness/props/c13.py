"""C13 — output is a function of the input: deterministic, repeatable, history-free (PARTIAL proof).

A  proof: Rpft.Props.C13 — the logic that is supposed to make it true: the logging context is a
   balanced stack on every path (withCtx_balanced, stack_restored, observed_history_free), the id
   source never repeats along any sequence of calls (invented_never_reused), given ids stay where
   they are (given_ids_verbatim), two runs differ by a bijection on invented ids (renaming_class,
   canon_run_independent), UUIDDict.validate is idempotent (generate_idem, validate_idem), the
   export resets its scratch state (toRows_idem).  T1: the shape of logger.py's context manager and
   of the export's reset, re-read from the source on every run.
B  tie: det.stack vs real `with logging_context` nests, det.uuid vs the real UUIDDict, det.canon vs
   the harness canonicaliser; the model's predictions for whole API calls ("stack depth 0 after
   every call", "global state as at import", "second validate changes nothing") vs the audit.
C  the deciding half (runtime): every observed call is run in a FRESH subprocess, at the end of a
   random HISTORY in a used process, and under several PYTHONHASHSEEDs; canonical outputs must be
   equal; a global-state audit (introspective) runs after every call.
"""
from __future__ import annotations

import concurrent.futures as cf
import copy
import csv
import hashlib
import io
import json
import os
import random
import re
import shutil
import subprocess
import tempfile
import time

from .. import core, par
from ..c13_common import (UUID_ANY, bijection_problems, call_problems, canon_out, given_ids, is_f_c13_a)
from ..flows import rename_uuids_by_first_occurrence
from ..gen import flowjson as FJ
from ..gen import sheets as G
from ..gen import sugar as S

MANIFEST = dict(
    text="Proof (PARTIAL): Lean theorems over a hand model of the state that could carry history. (a) logger.py as a stack machine: withCtx_balanced, exec_den, stack_restored, history_stack_restored, observed_history_free — for every nesting/sequence of `with logging_context` blocks, failing or not, both module-global lists are restored and what the observed call raises/logs does not depend on the history (mutual induction over programs; leaky_exit_not_restored shows the theorem is about THIS __exit__). (b,c) the id source: invented_never_reused (Nodup along any sequence of calls sharing an injective source), given_ids_verbatim, renaming_class + induced_bijective + canon_run_independent (two runs differ by a bijection on invented ids; first-occurrence canonicalisation decides that class). (d) UUIDDict: generate_idem, record_after_generate_noop, validate_idem, render_toRows_commute (hypothesis 'every reference carries its uuid' is forced: render_toRows_commute_needs_given = known finding F-C13-a). C13_model_partial combines them: the model process is history-free for all histories. THIN by construction: toRows_idem / toRows_scratch_free (the export DFS is an arbitrary function; they only say the reset makes the scratch irrelevant), tables_agree (shape of add/pop/__enter__/__exit__ and of to_rows' reset re-read from the source by AST on every run). The deciding half is a differential run of the REAL code: each observed call (create_flows on csv/xlsx/json files, save_data_sheets, convert_to_json, flows_to_sheets, from_dict().render()/to_rows()/validate() interleavings, compile-then-export) in a fresh subprocess vs at the end of random histories of 1-8 other calls (other workbooks, other tag filters, calls failing with exceptions / CLI-style CRITICAL exits thrown through logging_context, repeats) in a used process vs 8 (quick) / 64 (thorough) PYTHONHASHSEEDs; outputs (result, exception, log records with their processing stack) compared after renaming invented uuids by first occurrence AND by an explicit two-way bijection check; invented ids never shared between runs/objects, given ids verbatim; plus an introspective global-state audit after every call (every module-level value, default argument, pydantic field default of rpft.*, the logging stacks, logger configuration, cwd/sys.path/environ; ~385 items) against the import-time snapshot.",
    ref="§5 C13",
    note="PARTIAL: hash randomisation, import-time side effects, uuid4 entropy and file-system enumeration order cannot be exhibited by a Lean model; they are carried by the differential runs only (C13_full is kept as a predicate of an arbitrary process and proved for the model process). Trusts: Lean kernel; the runner harness/c13_runner.py, its audit fingerprint and the canonicaliser (tied to the proved `canon` by det.canon); CPython `with` contract. Known finding F-C13-a (render() writes invented uuids into group/flow references that had none, so a later to_rows() exports an obj_id that an earlier one does not) is exercised deterministically outside the main stream.",
    technique="Lean 4 proof (mutual induction over programs, induction over shapes / dictionaries) + fresh-vs-used-process differential execution with introspective global-state audit and PYTHONHASHSEED sweep",
)

PY = "/venv/bin/python"


# ------------------------------------------------------------------ running the runner


def run_runner(jobs, workdir, mode="seq", hashseed=None, timeout=900):
    env = {k: v for k, v in os.environ.items() if k != "PYTHONHASHSEED"}
    env["PYTHONPATH"] = f"{core.REPO}/src:{core.VERIF}"
    env["PYTHONWARNINGS"] = "ignore"
    env["PYTHONDONTWRITEBYTECODE"] = "1"
    if hashseed is not None:
        env["PYTHONHASHSEED"] = str(hashseed)
    wd = tempfile.mkdtemp(dir=workdir)
    try:
        p = subprocess.run([PY, "-m", "harness.c13_runner"], input=json.dumps({"workdir": wd, "mode": mode, "jobs": jobs}).encode(),
                           stdout=subprocess.PIPE, stderr=subprocess.PIPE, env=env, cwd=wd, timeout=timeout)
        if p.returncode != 0 or not p.stdout:
            raise core.Infra(f"runner exited {p.returncode}: {p.stderr.decode(errors='replace')[-1500:]}")
        return json.loads(p.stdout)
    finally:
        shutil.rmtree(wd, ignore_errors=True)


def problems_of(spec, res):
    """per-call oracle results: evaluated by the runner for compact answers, here for raw ones"""
    if "problems" in res:
        return [tuple(p) for p in res["problems"]]
    return call_problems(spec, res)


def sha_of(spec, res):
    if "canon_sha" in res:
        return res["canon_sha"]
    return hashlib.sha1(canon_out(spec, res).encode("utf-8", "surrogatepass")).hexdigest()


def raw(spec):
    return dict(spec, _raw=True)


def pool_map(fn, items, n=None):
    with cf.ThreadPoolExecutor(max_workers=n or par.NPROC) as ex:
        return list(ex.map(fn, items))


# ------------------------------------------------------------------ generators (pure: no rpft code runs here)


def _csv(headers, rows):
    buf = io.StringIO()
    w = csv.writer(buf, lineterminator="\n")
    w.writerow(headers)
    for r in rows:
        w.writerow([r.get(h, "") for h in headers])
    return buf.getvalue()


def _parse_csv(text):
    rd = list(csv.reader(io.StringIO(text)))
    return rd[0], [dict(zip(rd[0], r)) for r in rd[1:]]


def rnd_uuid(rng):
    import uuid

    return str(uuid.UUID(int=rng.getrandbits(128), version=4))


def gen_workbook(rng: random.Random):
    """content-index workbook: data sheet, template with arguments, main flow with an inserted block,
    optionally extra flows (core / sugared sheets), tags on index rows, ids given in the input,
    a campaign and a trigger sheet.  Returns (sheets, expect_ids) — ids that must appear verbatim."""
    sheets, _ = S.gen_index_workbook(rng)
    ih, irows = _parse_csv(sheets["content_index"])
    expect = []
    # ids given in the input
    mh, mrows = _parse_csv(sheets["main"])
    for r in mrows:
        if r["type"] == "send_message" and rng.random() < 0.6:
            r["_nodeId"] = rnd_uuid(rng)
            expect.append(r["_nodeId"])
    if rng.random() < 0.5:
        gid = rnd_uuid(rng)
        mrows.append({"row_id": "mg", "type": "add_to_group", "from": mrows[-1]["row_id"] if mrows[-1]["type"] != "start_new_flow" else "m1",
                      "message_text": "Given Group", "obj_id": gid})
        expect.append(gid)
    sheets["main"] = _csv(mh, mrows)
    for k in range(rng.choice([0, 0, 1, 2])):
        name = f"extra{k}"
        rows = G.gen_core_sheet(rng, rng.randint(2, 10), noop=rng.random() < 0.3) if rng.random() < 0.6 else S.gen_sugar_sheet(rng, rng.randint(3, 10))
        sheets[name] = _csv(G.HEADERS, rows)
        irows.append({"type": "create_flow", "sheet_name": name})
    if rng.random() < 0.35:
        sheets["camp"] = _csv(["offset", "unit", "event_type", "delivery_hour", "message", "relative_to", "start_mode", "flow"], [
            {"offset": str(rng.randint(0, 9)), "unit": rng.choice("MHDW"), "event_type": "M", "message": "hello", "relative_to": "Created On", "start_mode": "I"},
            {"offset": "2", "unit": "D", "event_type": "F", "relative_to": "Created On", "start_mode": rng.choice("ISP"), "flow": "main"},
        ])
        irows.append({"type": "create_campaign", "sheet_name": "camp", "group": rng.choice(["Given Group", "Camp Group"])})
    if rng.random() < 0.35:
        sheets["trig"] = _csv(["type", "keywords", "flow", "groups", "match_type"], [
            {"type": "K", "keywords": "go;start;", "flow": "main", "groups": rng.choice(["", "Trig Group;"]), "match_type": rng.choice(["F", "O", ""])},
            {"type": "C", "flow": "main"},
        ])
        irows.append({"type": "create_triggers", "sheet_name": "trig"})
    # tags
    ih2 = ih + ["group", "tags.1", "tags.2"]
    for r in irows:
        if r["type"] == "create_flow" and r["sheet_name"] != "main" and rng.random() < 0.5:
            r["tags.1"] = rng.choice(["a", "b"])
            if rng.random() < 0.4:
                r["tags.2"] = rng.choice(["x", "y"])
    sheets["content_index"] = _csv(ih2, irows)
    return sheets, expect


TAG_FILTERS = [None, [], ["1", "a"], ["1", "b"], ["1", "a", "b"], ["2", "x"], ["1", "a", "2", "y"], ["1", "zz"]]


def break_workbook(rng: random.Random, sheets: dict):
    """fault injection: calls that fail (exception or CRITICAL/ERROR record) inside nested logging contexts"""
    sheets = dict(sheets)
    k = rng.choice(["missing_template", "bad_row_type", "undefined_var", "bad_index_type", "row_id_without_sheet",
                    "missing_data_sheet", "unterminated_loop", "dup_argument", "bad_edge", "no_index", "bad_block_args"])
    if k == "missing_template":
        del sheets["tmpl"]
    elif k == "bad_row_type":
        h, rows = _parse_csv(sheets["main"])
        rng.choice(rows)["type"] = "send_mess"
        sheets["main"] = _csv(h, rows)
    elif k == "undefined_var":
        h, rows = _parse_csv(sheets["tmpl"])
        rows[rng.randrange(len(rows))]["message_text"] = "{{ nope_" + str(rng.randint(0, 9)) + " }}"
        sheets["tmpl"] = _csv(h, rows)
    elif k == "bad_index_type":
        h, rows = _parse_csv(sheets["content_index"])
        rows.insert(rng.randrange(len(rows) + 1), {"type": "create_flo", "sheet_name": "main"})
        sheets["content_index"] = _csv(h, rows)
    elif k == "row_id_without_sheet":
        h, rows = _parse_csv(sheets["content_index"])
        rows.append({"type": "create_flow", "sheet_name": "main", "data_row_id": "row1", "new_name": "m2"})
        sheets["content_index"] = _csv(h, rows)
    elif k == "missing_data_sheet":
        del sheets["data"]
    elif k == "unterminated_loop":
        h, rows = _parse_csv(sheets["tmpl"])
        rows = [r for r in rows if r["type"] != "end_for"]
        sheets["tmpl"] = _csv(h, rows)
    elif k == "dup_argument":
        h, rows = _parse_csv(sheets["content_index"])
        for r in rows:
            if r["type"] == "template_definition":
                r["template_arguments"] = "word;;x|"
        sheets["content_index"] = _csv(h, rows)
    elif k == "bad_edge":
        h, rows = _parse_csv(sheets["main"])
        rows[-1]["from"] = "nowhere"
        sheets["main"] = _csv(h, rows)
    elif k == "no_index":
        del sheets["content_index"]
    elif k == "bad_block_args":
        h, rows = _parse_csv(sheets["main"])
        for r in rows:
            if r["type"] == "insert_as_block":
                r["data_row_id"] = ""
        sheets["main"] = _csv(h, rows)
    return sheets, k


def gen_doc(rng: random.Random, max_nodes=8):
    return FJ.gen_container(rng, rng.randint(1, max_nodes), special_text=rng.random() < 0.6, ui=rng.random() < 0.3,
                            name=rng.choice(["flow", "other flow", "f2"]))


def break_doc(rng: random.Random, doc):
    doc = copy.deepcopy(doc)
    nodes = doc["flows"][0]["nodes"]
    k = rng.choice(["dangling", "two_exits", "bad_router", "no_flows"])
    if k == "dangling":
        n = rng.choice(nodes)
        n["exits"][0]["destination_uuid"] = rnd_uuid(rng)
    elif k == "two_exits":
        for n in nodes:
            if "router" not in n:
                n["exits"].append({"uuid": rnd_uuid(rng), "destination_uuid": None})
                break
        else:
            nodes[0].pop("router", None)
            nodes[0]["exits"] = nodes[0]["exits"][:1] * 2
    elif k == "bad_router":
        nodes[0]["router"] = {"type": "nonsense"}
    else:
        del doc["flows"]
    return doc, k


SEQS = [
    [["render"]], [["to_rows", 0, 0]], [["render"], ["render"]], [["to_rows", 0, 0], ["to_rows", 0, 0]],
    [["render"], ["to_rows", 0, 0], ["render"]], [["to_rows", 0, 0], ["render"], ["to_rows", 0, 0]],
    [["raw_rows", 0], ["render"], ["raw_rows", 0]], [["to_rows", 0, 1], ["udict"], ["render"], ["udict"], ["to_rows", 0, 1], ["render"], ["udict"]],
    [["to_rows", 1, 0], ["validate"], ["to_rows", 1, 0], ["validate"], ["render"]], [["raw_rows", 1], ["raw_rows", 1], ["to_rows", 1, 1]],
]


def gen_prog(rng: random.Random, depth=0):
    r = rng.random()
    if depth >= 4 or r < 0.3:
        return {"w": f"m{rng.randint(0, 99)}"}
    if r < 0.42:
        return {"f": f"boom{rng.randint(0, 9)}"}
    body = [gen_prog(rng, depth + 1) for _ in range(rng.randint(0, 3))]
    if r < 0.85:
        return {"c": rng.choice(["sheet", "row 2", "tmpl", "a b", "x"]) + str(rng.randint(0, 5)), "b": body}
    return {"a": body}


def gen_uuid_ops(rng: random.Random):
    ops = []
    names = ["f", "g", "h", "Grp A", ""]
    for _ in range(rng.randint(1, 10)):
        if rng.random() < 0.3:
            ops.append({"k": "generate"})
        else:
            ops.append({"k": rng.choice(["flow", "group"]), "name": rng.choice(names),
                        "uuid": rng.choice([None, "", "u1", "u2", rnd_uuid(rng)])})
    if rng.random() < 0.7:
        ops.append({"k": "generate"})
        if rng.random() < 0.5:
            ops.append({"k": "generate"})
    return ops


def gen_call(rng: random.Random, failing=False, books=None, docs=None):
    """one API call (JSON spec for the runner) + strata labels"""
    r = rng.random()
    book = rng.choice(books) if books and rng.random() < 0.5 else gen_workbook(rng)
    sheets, expect = book
    if r < 0.42:
        fmt = rng.choice(["csv", "csv", "xlsx", "json"])
        spec = {"op": "create_flows", "fmt": fmt, "wbs": [sheets], "tags": copy.deepcopy(rng.choice(TAG_FILTERS)), "outfile": rng.random() < 0.3}
        if spec["tags"] is None:
            del spec["tags"]
        if rng.random() < 0.15:
            # second input file overriding one sheet (CompositeSheetReader: last one wins, warning)
            other, expect = gen_workbook(rng)
            spec["wbs"] = [sheets, {"main": other["main"]}]
        label = "create_flows." + fmt
        if failing:
            which = rng.randrange(len(spec["wbs"])) if len(spec["wbs"]) > 1 and rng.random() < 0.3 else 0
            if rng.random() < 0.12:
                spec["tags"] = [rng.choice(["a", "x"])]   # ValueError before any context is entered
                kind = "bad_tags"
            else:
                spec["wbs"][which], kind = break_workbook(rng, spec["wbs"][0])
            spec["crit_raises"] = rng.random() < 0.5     # CLI behaviour: CRITICAL exits through the `with` blocks
            label = "failing.create_flows." + kind + (".exit" if spec["crit_raises"] else "")
        else:
            spec["expect_ids"] = expect
        return spec, label
    if r < 0.50:
        fmt = rng.choice(["csv", "xlsx", "json"])
        spec = {"op": "save_data_sheets", "fmt": fmt, "wbs": [sheets], "outfile": rng.random() < 0.3}
        if rng.random() < 0.4:
            spec["tags"] = copy.deepcopy(rng.choice(TAG_FILTERS[1:]))
        if failing:
            spec["wbs"][0], kind = break_workbook(rng, sheets)
            return spec, "failing.save_data_sheets." + kind
        return spec, "save_data_sheets." + fmt
    if r < 0.57:
        fmt = rng.choice(["csv", "xlsx", "json"])
        return {"op": "convert_to_json", "fmt": fmt, "wbs": [sheets]}, "convert_to_json." + fmt
    if r < 0.62:
        spec = {"op": "parser_default", "fmt": "csv", "wbs": [sheets]}
        if failing:
            spec["wbs"][0], kind = break_workbook(rng, sheets)
            return spec, "failing.parser_default." + kind
        return spec, "parser_default"
    if r < 0.68:
        seqs = [rng.choice(SEQS) for _ in range(rng.randint(1, 3))]
        # compiled containers carry group/flow references without uuid until validate(): only the
        # uuid-free export commutes with render (known finding F-C13-a) → strip_uuids in this stream
        seqs = [[[s[0], 1, s[2]] if s[0] == "to_rows" else s for s in q] for q in seqs]
        seqs = [[s for s in q if s[0] != "raw_rows"] or [["render"]] for q in seqs]
        spec = {"op": "compile_ops", "fmt": "csv", "wbs": [sheets], "seqs": seqs}
        if failing:
            spec["wbs"][0], kind = break_workbook(rng, sheets)
            return spec, "failing.compile_ops." + kind
        return spec, "compile_ops"
    doc = rng.choice(docs) if docs and rng.random() < 0.5 else gen_doc(rng)
    if r < 0.82:
        fmt = rng.choice(["csv", "csv", "xlsx"])
        spec = {"op": "flows_to_sheets", "doc": doc, "fmt": fmt, "strip": rng.random() < 0.4, "numbered": rng.random() < 0.4}
        if failing:
            spec["doc"], kind = break_doc(rng, doc)
            return spec, "failing.flows_to_sheets." + kind
        return spec, "flows_to_sheets." + fmt
    if r < 0.95:
        seqs = [rng.choice(SEQS) for _ in range(rng.randint(1, 4))]
        spec = {"op": "container", "doc": doc, "seqs": seqs}
        if failing:
            spec["doc"], kind = break_doc(rng, doc)
            return spec, "failing.container." + kind
        return spec, "container"
    if r < 0.975:
        return {"op": "logprog", "prog": gen_prog(rng)}, "logprog"
    return {"op": "uuiddict", "ops": gen_uuid_ops(rng)}, "uuiddict"


# ---- documented limits: a small deterministic corpus of workbooks AT and JUST BEYOND each boundary.
# What the library does there (accept / shorten / reject with an error record / raise) is not C13's
# business; that it does THE SAME THING on every run, in every process and after every history, is.

LIMITS = {"category_name": 115, "value": 640, "field_key": 36}   # RapidPro's limits the toolkit documents / enforces
_FILL = ("i would like to receive more information about the weekly parenting sessions for caregivers of teenagers in my district "
         "and about the programme that starts next month at the community centre near the market ")


def text_of(n: int, salt: str = "") -> str:
    """plain words, exactly n characters, no cell syntax, no blank at either end"""
    s = (salt + " " if salt else "") + _FILL * (n // len(_FILL) + 1)
    s = s[:n]
    return s[:-1] + "x" if s.endswith(" ") else s


def _limits_book(rows):
    for i, r in enumerate(rows):
        r.setdefault("row_id", str(i + 1))
    return {"content_index": _csv(["type", "sheet_name", "new_name", "status"], [{"type": "create_flow", "sheet_name": "limits"}]),
            "limits": _csv(G.HEADERS, rows)}


def limits_corpus():
    """[(name, sheets, beyond)] — beyond: the shape lies beyond a limit (an error is the expected answer)"""
    out = []
    L = LIMITS["category_name"]
    # category names generated from the condition value (condition_name blank)
    for n in (L, L + 1, L + 25):
        out.append((f"category_name.auto.{n}", _limits_book([
            {"type": "send_message", "from": "start", "message_text": "How can we help you?"},
            {"type": "wait_for_response", "from": "1"},
            {"type": "send_message", "from": "2", "condition": text_of(n), "condition_type": "has_phrase", "message_text": "We will call you."},
            {"type": "send_message", "from": "2", "message_text": "Sorry, I did not get that."},
            {"type": "split_by_value", "from": "4", "message_text": "@fields.topic"},
            {"type": "send_message", "from": "5", "condition": text_of(n, "topic"), "message_text": "Noted."},
        ]), n > L))
    # … made unique by a suffix: the same value under two tests (second name = first + "_alt")
    for n in (L - 4, L - 3):
        out.append((f"category_name.auto_suffixed.{n}+4", _limits_book([
            {"type": "send_message", "from": "start", "message_text": "How can we help you?"},
            {"type": "wait_for_response", "from": "1"},
            {"type": "send_message", "from": "2", "condition": text_of(n), "condition_type": "has_phrase", "message_text": "phrase"},
            {"type": "send_message", "from": "2", "condition": text_of(n), "condition_type": "has_only_phrase", "message_text": "only phrase"},
        ]), n + 4 > L))
    # category names given in the sheet
    for n in (L, L + 1):
        out.append((f"category_name.given.{n}", _limits_book([
            {"type": "send_message", "from": "start", "message_text": "Yes or no?"},
            {"type": "wait_for_response", "from": "1"},
            {"type": "send_message", "from": "2", "condition": "yes", "condition_name": text_of(n).title(), "message_text": "ok"},
        ]), n > L))
    # values of contact fields / flow results
    V = LIMITS["value"]
    out.append((f"value.{V}", _limits_book([
        {"type": "send_message", "from": "start", "message_text": text_of(V + 1, "message")},
        {"type": "save_value", "from": "1", "message_text": text_of(V), "save_name": "story"},
        {"type": "save_flow_result", "from": "2", "message_text": text_of(V, "result"), "save_name": "story", "result_category": "Long"},
    ]), False))
    for t in ("save_value", "save_flow_result"):
        out.append((f"value.{t}.{V + 1}", _limits_book([
            {"type": "send_message", "from": "start", "message_text": "hello"},
            {"type": t, "from": "1", "message_text": text_of(V + 1), "save_name": "story"},
            {"type": "send_message", "from": "2", "message_text": "bye"},
        ]), True))
    # names whose field key (lower case, blanks → _) reaches the limit
    K = LIMITS["field_key"]
    for n in (K, K + 1):
        name = text_of(n, "My Field").title()
        out.append((f"field_key.{n}", _limits_book([
            {"type": "send_message", "from": "start", "message_text": "hello"},
            {"type": "save_value", "from": "1", "message_text": "v", "save_name": name},
            {"type": "wait_for_response", "from": "2", "save_name": name},
            {"type": "send_message", "from": "3", "condition": "a", "message_text": "bye"},
        ]), n > K))
        out.append((f"field_key.webhook_result.{n}", _limits_book([
            {"type": "send_message", "from": "start", "message_text": "hello"},
            {"type": "call_webhook", "from": "1", "message_text": "{}", "webhook.url": "http://example.com/hook", "webhook.method": "POST", "save_name": name},
            {"type": "send_message", "from": "2", "condition": "Success", "message_text": "done"},
        ]), n > K))
    return out


def gen_limits_cases(rng: random.Random):
    """one case per corpus shape: the same comparisons as for generated calls (fresh process / end of
    a history in a used process / hash seeds); the history always repeats the call itself once and
    holds another shape of the corpus, beside ordinary generated calls"""
    corpus = limits_corpus()
    cases = []

    def call(k):
        name, sheets, beyond = corpus[k]
        spec = {"op": "create_flows", "fmt": rng.choice(["csv", "csv", "xlsx", "json"]), "wbs": [sheets], "outfile": rng.random() < 0.3}
        if beyond:
            spec["crit_raises"] = rng.random() < 0.5   # as the CLI: the first CRITICAL record ends the call
        return spec

    for k, (name, sheets, beyond) in enumerate(corpus):
        observed = call(k)
        hist = [(copy.deepcopy(observed), "same_call_again"), (call(rng.randrange(len(corpus))), "another_limits_shape")]
        for _ in range(rng.randint(0, 2)):
            c, lb = gen_call(rng, failing=rng.random() < 0.4)
            hist.append((c, ("failing" if lb.startswith("failing") else "other") + "." + c["op"]))
        rng.shuffle(hist)
        cases.append({"id": None, "observed": observed, "history": [h for h, _ in hist], "label": "limits." + name,
                      "hlabels": [lb for _, lb in hist]})
    return cases


def gen_case(rng: random.Random, cid: int):
    books = [gen_workbook(rng) for _ in range(2)]
    docs = [gen_doc(rng) for _ in range(2)]
    observed, label = gen_call(rng, failing=rng.random() < 0.12, books=books, docs=docs)
    hist, hlabels = [], []
    for _ in range(rng.randint(1, 8)):
        r = rng.random()
        if r < 0.12:
            c, lb = copy.deepcopy(observed), "same_call_again"
        elif r < 0.24 and "wbs" in observed:
            c = copy.deepcopy(observed)
            c["tags"] = copy.deepcopy(rng.choice(TAG_FILTERS[1:]))
            lb = "same_workbook_other_tags"
        elif r < 0.34 and observed["op"] in ("container", "flows_to_sheets"):
            c = {"op": "container", "doc": copy.deepcopy(observed["doc"]), "seqs": [rng.choice(SEQS)]}
            lb = "same_doc_other_ops"
        else:
            c, lb = gen_call(rng, failing=rng.random() < 0.4, books=books, docs=docs)
            lb = ("failing" if lb.startswith("failing") else "other") + "." + c["op"]
        hist.append(c)
        hlabels.append(lb)
    return {"id": cid, "observed": observed, "history": hist, "label": label, "hlabels": hlabels}


# ------------------------------------------------------------------ model ties (B)


def prog_tie(drv, progs, reals):
    """det.stack vs real nested `with logging_context` (records with their processing stack, outcome)"""
    ties = []
    answers = drv.results([{"op": "det.stack", "calls": [p]} for p in progs])
    for p, m, real in zip(progs, answers, reals):
        if "__error__" in m:
            raise core.Infra(str(m))
        m = m[0]
        model_logs = [[" | ".join(r["stack"]), r["msg"]] for r in m["records"]]
        real_logs = [[lg[1], lg[2]] for lg in real["logs"]]
        real_err = None
        if real["exc"]:
            real_err = real["exc"].split(": ", 1)[1] if ": " in real["exc"] else real["exc"]
        if model_logs != real_logs or (m["err"] or None) != real_err or m["stack"] != [] or m["depth"] != 0:
            ties.append({"prog": p, "model": {"logs": model_logs, "err": m["err"]}, "real": {"logs": real_logs, "exc": real["exc"]}})
    return ties


def canon_ids(x, is_id):
    mapping = {}

    def ren(v):
        if isinstance(v, list):
            return [ren(e) for e in v]
        if isinstance(v, str) and is_id(v):
            return mapping.setdefault(v, f"#{len(mapping)}")
        return v

    return ren(x)


def uuid_tie(drv, ops_list, reals):
    ties = []
    answers = drv.results([{"op": "det.uuid", "ops": ops} for ops in ops_list])
    for ops, m, real in zip(ops_list, answers, reals):
        if "__error__" in m:
            raise core.Infra(str(m))
        given = given_ids(ops)
        rr = real["result"]
        a = canon_ids([m["flow"], m["group"], m["errors"]], lambda s: s.startswith("#"))
        b = canon_ids([rr["flow"], rr["group"], rr["errors"]], lambda s: bool(UUID_ANY.fullmatch(s)) and s not in given)
        if a != b:
            ties.append({"ops": ops, "model": a, "real": b})
    return ties


def canon_tie(drv, rng, n):
    """det.canon (the proved canonicaliser) vs the harness' rename_uuids_by_first_occurrence"""
    ties = []
    trees, docs = [], []
    for _ in range(n):
        ids = [rnd_uuid(rng) for _ in range(rng.randint(1, 5))]

        def t(d):
            r = rng.random()
            if d > 4 or r < 0.25:
                return {"i": rng.choice(ids)}
            if r < 0.4:
                return {"g": rng.choice(["given", "x", rnd_uuid(random.Random(d))[:13]])}
            return {"n": rng.choice(["a", "b"]), "l": t(d + 1), "r": t(d + 1)}

        trees.append(t(0))

    def to_doc(t):
        if "i" in t:
            return t["i"]
        if "g" in t:
            return "G:" + t["g"]
        return [t["n"], to_doc(t["l"]), to_doc(t["r"])]

    def to_doc_m(t):
        if "i" in t:
            return t["i"]
        if "g" in t:
            return "G:" + t["g"]
        return [t["n"], to_doc_m(t["l"]), to_doc_m(t["r"])]

    answers = drv.results([{"op": "det.canon", "tree": t} for t in trees])
    for t, m in zip(trees, answers):
        if "__error__" in m:
            raise core.Infra(str(m))
        mine, _ = rename_uuids_by_first_occurrence(to_doc(t))
        mine2 = json.loads(canon_out({"op": "x"}, {"result": to_doc(t), "exc": None, "logs": []}))["result"]
        if to_doc_m(m) != mine or mine2 != mine:
            ties.append({"tree": t, "model": to_doc_m(m), "harness": mine, "harness2": mine2})
    return ties


# ------------------------------------------------------------------ known finding F-C13-a


def f_c13_a_doc():
    g = FJ.FlowGen(random.Random(13), 1, special_text=False)
    n2 = g.uuid()
    return {"campaigns": [], "fields": [], "groups": [], "site": "https://rapidpro.idems.international", "triggers": [], "version": "13",
            "flows": [{"uuid": g.uuid(), "name": "flow", "language": "eng", "type": "messaging", "spec_version": "13.1.0", "revision": 0,
                       "expire_after_minutes": 10080, "metadata": {}, "localization": {},
                       "nodes": [{"uuid": g.uuid(), "actions": [{"uuid": g.uuid(), "type": "add_contact_groups", "groups": [{"name": "No Uuid Group", "uuid": None}]}],
                                  "exits": [{"uuid": g.uuid(), "destination_uuid": n2}]},
                                 {"uuid": n2, "actions": [{"uuid": g.uuid(), "type": "send_msg", "text": "hi", "attachments": [], "quick_replies": []}],
                                  "exits": [{"uuid": g.uuid(), "destination_uuid": None}]}]}]}


def known_stream(ck, workdir):
    doc = f_c13_a_doc()
    spec = {"op": "container", "doc": doc, "seqs": [[["to_rows", 0, 0], ["render"], ["to_rows", 0, 0]]]}
    res = run_runner([{"id": "k", "calls": [raw(spec)]}], workdir)["results"][0]["calls"][0]
    probs = call_problems(spec, res)
    if probs:
        # counterfactual: the same document with the uuid given commutes
        fixed = copy.deepcopy(spec)
        fixed["doc"]["flows"][0]["nodes"][0]["actions"][0]["groups"][0]["uuid"] = "5c2e3b54-7c1f-4d7c-9a10-0d6f3f2a9b11"
        res2 = run_runner([{"id": "k", "calls": [raw(fixed)]}], workdir)["results"][0]["calls"][0]
        if is_f_c13_a(spec, probs) and not call_problems(fixed, res2):
            rows = res["result"][0]
            ck.known("F-C13-a", "render() writes invented uuids into group/flow references that had none: to_rows() after render() exports an obj_id that to_rows() before it does not",
                     {"before": rows[0].get("to_rows"), "after": rows[2].get("to_rows")})
        else:
            ck.violation("known-finding input fails differently: " + probs[0][0], {"history": [], "observed": spec, "detail": probs[0][1]})


# ------------------------------------------------------------------ run


def describe(spec):
    d = {k: v for k, v in spec.items() if k not in ("wbs", "doc")}
    if "wbs" in spec:
        d["sheets"] = [sorted(wb) for wb in spec["wbs"]]
    if "doc" in spec and isinstance(spec["doc"], dict):
        d["nodes"] = sum(len(f.get("nodes", [])) for f in spec["doc"].get("flows", []))
    return d


def shrink_history(case, workdir, fails):
    """drop history calls while the used-process run still fails (each attempt = one process)"""
    hist = list(case["history"])
    changed = True
    while changed and hist:
        changed = False
        for i in range(len(hist) - 1, -1, -1):
            cand = hist[:i] + hist[i + 1:]
            if fails(cand):
                hist, changed = cand, True
                break
    return hist


def run(ck: core.Check):
    ck.lean = core.lean_step("C13", thorough=(ck.tier == "thorough"))
    if not core.DRIVER_BIN.exists():
        raise core.Infra("driver not built:\n" + ck.lean.log[-2000:])
    quick = ck.tier == "quick"
    ck.rule = (
        "a case = one observed API call (create_flows on csv/xlsx/json files incl. two-file composites, tag filters, output file; "
        "save_data_sheets; convert_to_json; flows_to_sheets csv/xlsx × strip × numbered; from_dict().render()/to_rows()/validate() "
        "interleavings on live containers; compile-then-render/to_rows; ContentIndexParser with its default TagMatcher(); 12% of them failing) "
        "together with a random history of 1-8 other calls (40% failing: 11 workbook fault classes, 4 document fault classes, bad tag lists, "
        "CRITICAL-exits like the CLI; repeats of the observed call; the same workbook under other tags; other operations on the same document); "
        "plus a deterministic corpus of workbooks at and just beyond the documented limits (generated / suffixed / given category names of 115, 116, 140 "
        "characters, field and result values of 640 / 641, names whose field key has 36 / 37 characters; beyond a limit half of them CLI-style), "
        "each observed after a history that repeats the call itself and runs another shape of the corpus; "
        "each case is run fresh, used (histories accumulate over 4 cases per process) and fresh under every hash seed; "
        "non-trivial = the observed call ran real library code to an answer (result or library exception); distinct = distinct (observed, history) JSON"
    )
    ck.assumptions = [
        "the `with` statement always runs __exit__ (CPython); uuid4 never repeats (entropy) — the model's injective id stream",
        "the order of top-level sheets in convert_to_json(csv) follows Path.glob (file system enumeration), compared order-insensitively",
        "a process forked from an interpreter that has only imported rpft is 'fresh' for the hash-seed sweep; the reference run is a really new process",
        "temp-dir paths and memory addresses in messages are normalised before comparison",
    ]
    ck.partial_gap = [
        "hash randomisation, import-time side effects, uuid4 entropy, file-system enumeration order: not expressible in the model, decided by the differential runs only",
        "C13_model_partial assumes the process state that outlives a call is {logging stacks, id source}; that nothing else exists is what the global-state audit checks, per explored history",
        "toRows_idem is thin: the export DFS is an arbitrary function in the model (its real behaviour is C04's subject)",
    ]
    workdir = tempfile.mkdtemp(prefix="c13_")
    try:
        _run(ck, quick, workdir)
    finally:
        shutil.rmtree(workdir, ignore_errors=True)


def _run(ck, quick, workdir):
    drv = core.Driver()
    rng = ck.rng
    n_cases = 192 if quick else 960
    group = 4
    seeds = list(range(1, 9)) if quick else list(range(1, 65))
    n_seed_cases = 96 if quick else 192

    phases = {}
    t0 = time.time()
    known_stream(ck, workdir)

    cases = [gen_case(random.Random(rng.randrange(1 << 60)), i) for i in range(n_cases)]
    # make sure the ties have material: a few logprog / uuiddict observed calls in every run
    for i in range(0, min(24, n_cases), 2):
        r2 = random.Random(rng.randrange(1 << 60))
        cases[i]["observed"] = {"op": "logprog", "prog": gen_prog(r2)} if i % 4 == 0 else {"op": "uuiddict", "ops": gen_uuid_ops(r2)}
        cases[i]["label"] = cases[i]["observed"]["op"]
    # the corpus of documented limits (at / just beyond each boundary), placed inside the hash-seed sweep
    at = min(24, n_cases)
    cases[at:at] = gen_limits_cases(random.Random(rng.randrange(1 << 60)))
    for i, c in enumerate(cases):
        c["id"] = i
    for c in cases:
        ck.count("observed." + c["label"])
        ck.count("history_length", len(c["history"]))
        for lb in c["hlabels"]:
            ck.count("history." + (lb if not lb.startswith("failing") and not lb.startswith("other") else lb.split(".")[0]))

    # ---- fresh: one new process per case
    def fresh_one(c):
        return run_runner([{"id": c["id"], "calls": [raw(c["observed"])]}], workdir)["results"][0]["calls"][0]

    fresh = pool_map(fresh_one, cases)
    phases["fresh"] = round(time.time() - t0, 1)

    # ---- used: histories accumulate over `group` cases per process
    groups = [cases[i:i + group] for i in range(0, len(cases), group)]

    def used_group(g):
        return run_runner([{"id": c["id"], "calls": c["history"] + [raw(c["observed"])]} for c in g], workdir)["results"]

    used = {}
    for g, res in zip(groups, pool_map(used_group, groups)):
        for c, r in zip(g, res):
            used[c["id"]] = r["calls"]

    phases["used"] = round(time.time() - t0, 1)
    # ---- hash seeds: every seed runs the observed calls in processes forked from a clean import
    seed_cases = cases[:n_seed_cases]
    shards = [seed_cases[i::2] for i in range(2)] if quick else [seed_cases[i::4] for i in range(4)]
    seed_jobs = [(s, sh) for s in seeds for sh in shards if sh]

    def seed_run(job):
        s, sh = job
        out = run_runner([{"id": c["id"], "calls": [c["observed"]]} for c in sh], workdir, mode="forkeach", hashseed=s)
        return s, out

    by_seed: dict = {}
    probes = set()
    for s, out in pool_map(seed_run, seed_jobs):
        probes.add((s, out["hash_probe"]))
        for r in out["results"]:
            if "runner_error" in r:
                raise core.Infra(f"runner child failed under seed {s}: {r['runner_error']}")
            by_seed.setdefault(r["id"], []).append((s, r["calls"][0]))
    ck.extra["hash_seeds"] = len(seeds)
    ck.extra["distinct_hash_probe_values"] = len({p for _, p in probes})
    if len({p for _, p in probes}) < 2:
        raise core.Infra("PYTHONHASHSEED had no effect on str hashing in the runner")

    phases["seeds"] = round(time.time() - t0, 1)
    # ---- compare
    n_audit_calls = 0
    diagnoses = 0   # detailed re-runs (one extra process each) are limited to the first few failures
    for c in cases:
        spec = c["observed"]
        F = fresh[c["id"]]
        U = used[c["id"]][-1]
        nontrivial = F["exc"] is None or not F["exc"].startswith(("ValueError: unknown op", "FileNotFoundError"))
        ck.case(json.dumps([spec, c["history"]], sort_keys=True), nontrivial=nontrivial)
        if len(ck.samples) < 3:
            ck.samples.append({"observed": describe(spec), "history": [describe(h) for h in c["history"]],
                               "fresh_result_head": (F["exc"] or json.dumps(F["result"]))[:200]})
        ck.count("outcome." + ("exception" if F["exc"] else ("error_log" if any(lg[0] >= 40 for lg in F["logs"]) else "ok")))
        if F["invented"]:
            ck.count("cases_with_invented_ids")
            ck.count("invented_ids", len(F["invented"]))
        problems = []   # (what, detail, replay-history)
        # per-call oracles on every call of both runs (audit, reuse, idempotence/commutation, verbatim ids)
        for w, d in call_problems(spec, F):
            problems.append((w + " (fresh process)", d, [], spec))
        for k, (hspec, hres) in enumerate(zip(c["history"] + [spec], used[c["id"]])):
            n_audit_calls += 1
            for w, d in problems_of(hspec, hres):
                if hspec is not spec and w.startswith("render / to_rows") and is_f_c13_a(hspec, [(w, d)]):
                    continue
                # replay: the offending call as the observed one, preceded by the calls of its case
                problems.append((w + f" (call {k} of the used process)", d, c["history"][:k], hspec))
        # history differential
        cF, cU = canon_out(spec, F), canon_out(spec, U)
        if cF != cU:
            bp = bijection_problems({"r": F["result"], "e": F["exc"], "l": F["logs"]}, {"r": U["result"], "e": U["exc"], "l": U["logs"]}, given_ids(spec))
            problems.append(("the observed call answers differently after a history than in a fresh process",
                             {"first_difference": (bp or ["(canonical forms differ)"])[0], "fresh": cF[:600], "used": cU[:600]}, c["history"]))
        else:
            bp = bijection_problems(F["result"], U["result"], given_ids(spec))
            if bp:
                problems.append(("outputs of two runs are not related by a bijection on invented uuids", bp[0], c["history"]))
        shared = set(F["invented"]) & set(U["invented"])
        if shared:
            problems.append(("an invented uuid is shared by two runs", sorted(shared)[0], c["history"]))
        # hash seeds
        shaF = sha_of(spec, F)
        for s, R in by_seed.get(c["id"], []):
            ck.count("hash_seed_runs")
            if sha_of(spec, R) != shaF:
                bp = []
                if diagnoses < 3:
                    diagnoses += 1
                    R2 = run_runner([{"id": 0, "calls": [raw(spec)]}], workdir, hashseed=s)["results"][0]["calls"][0]
                    bp = bijection_problems({"r": F["result"], "e": F["exc"], "l": F["logs"]}, {"r": R2["result"], "e": R2["exc"], "l": R2["logs"]}, given_ids(spec))
                problems.append((f"the observed call answers differently under PYTHONHASHSEED={s}",
                                 {"first_difference": (bp or ["(canonical forms differ)"])[0],
                                  "hashseed": s, "fresh": cF[:300], "seeded": R.get("canon_head")}, []))
                break
            if set(R["invented"]) & set(F["invented"]):
                problems.append(("an invented uuid is shared by two runs", sorted(set(R["invented"]) & set(F["invented"]))[0], []))
            for w, d in problems_of(spec, R)[:1]:
                problems.append((w + f" (PYTHONHASHSEED={s})", d, []))
        if problems:
            w, d, hist = problems[0][:3]
            culprit = problems[0][3] if len(problems[0]) > 3 else spec
            if is_f_c13_a(spec, [(p[0].split(" (")[0], p[1]) for p in problems if isinstance(p[1], str)]) and len(problems) == len([p for p in problems if p[0].startswith("render / to_rows")]):
                ck.known("F-C13-a", "render() writes invented uuids into references that had none; to_rows() afterwards differs", None)
                continue
            replay = {"history": hist, "observed": culprit, "detail": d}
            if isinstance(d, dict) and "hashseed" in d:
                replay["hashseed"] = d["hashseed"]
            if "after a history" in w and diagnoses < 3:
                diagnoses += 1
                # isolate: this case alone in a new used process, then drop history calls
                def fails(h, spec=spec, shaF=shaF):
                    r = run_runner([{"id": 0, "calls": h + [spec]}], workdir)["results"][0]["calls"][-1]
                    return sha_of(spec, r) != shaF
                if fails(c["history"]):
                    replay["history"] = shrink_history(c, workdir, fails)
                    if not replay["history"]:
                        w = "two runs of the same call, each in a new process, differ beyond a renaming of invented uuids (no history needed)"
                else:
                    # needs the longer accumulated history of its process group
                    g = groups[c["id"] // group]
                    pre = []
                    for c2 in g:
                        if c2["id"] == c["id"]:
                            break
                        pre += c2["history"] + [c2["observed"]]
                    replay["history"] = pre + c["history"]
            ck.violation(w, replay)
    ck.count("calls_audited", n_audit_calls + len(cases) + 2 * (400 if quick else 4000))
    ck.extra["audit_items_per_snapshot"] = "see runner: every module-level value, default argument and pydantic field default of rpft.* (≈385)"

    phases["compare"] = round(time.time() - t0, 1)
    ck.extra["phase_seconds_cumulative"] = phases
    # ---- model ties
    # a dedicated used process: many nests of real `with logging_context` blocks and UUIDDict runs in a row
    r4 = random.Random(rng.randrange(1 << 60))
    n_tie = 400 if quick else 4000
    tie_calls = [{"op": "logprog", "prog": gen_prog(r4)} if i % 2 == 0 else {"op": "uuiddict", "ops": gen_uuid_ops(r4)} for i in range(2 * n_tie)]
    tie_res = run_runner([{"id": "tie", "calls": tie_calls}], workdir)["results"][0]["calls"]
    for k, (tc, tr) in enumerate(zip(tie_calls, tie_res)):
        for w, d in call_problems(tc, tr):
            ck.violation(w + " (tie batch)", {"history": [], "observed": tc, "detail": d})
    progs = [(tc["prog"], tr) for tc, tr in zip(tie_calls, tie_res) if tc["op"] == "logprog"]
    progs += [(c["observed"]["prog"], used[c["id"]][-1]) for c in cases if c["observed"]["op"] == "logprog"]
    progs += [(h["prog"], r) for c in cases for h, r in zip(c["history"], used[c["id"]]) if h["op"] == "logprog"]
    for t in prog_tie(drv, [p for p, _ in progs], [r for _, r in progs]):
        ck.tie_break("det.stack and the real logging_context disagree", t)
    ck.count("tie.logprog", len(progs))
    uops = [(tc["ops"], tr) for tc, tr in zip(tie_calls, tie_res) if tc["op"] == "uuiddict"]
    uops += [(c["observed"]["ops"], used[c["id"]][-1]) for c in cases if c["observed"]["op"] == "uuiddict"]
    uops += [(h["ops"], r) for c in cases for h, r in zip(c["history"], used[c["id"]]) if h["op"] == "uuiddict"]
    for t in uuid_tie(drv, [o for o, _ in uops], [r for _, r in uops]):
        ck.tie_break("det.uuid and the real UUIDDict disagree", t)
    ck.count("tie.uuiddict", len(uops))
    for t in canon_tie(drv, random.Random(rng.randrange(1 << 60)), 300 if quick else 3000):
        ck.tie_break("det.canon and the harness canonicaliser disagree", t)
    ck.count("tie.canon", 300 if quick else 3000)
    # model predictions for whole calls: depth 0 / unchanged state after every call, second validate a no-op
    for c in cases:
        for k, hres in enumerate(used[c["id"]]):
            for a in hres["audit"]:
                if "logging_context_handler" in a["where"]:
                    ck.tie_break("model predicts an empty logging stack after every call (stack_restored)", {"case": c["id"], "call": k, "audit": a})
    for need in ("observed.logprog", "observed.uuiddict"):
        if ck.strata.get(need, 0) < 3:
            raise core.Infra(f"generator stratum {need} under-represented")
    need_strata = ["history.failing", "history.same_call_again", "history.same_workbook_other_tags", "outcome.ok", "outcome.exception", "cases_with_invented_ids"]
    for need in need_strata:
        if ck.strata.get(need, 0) < 5:
            raise core.Infra(f"generator stratum {need} under-represented: {ck.strata.get(need, 0)}")

    if (ck.tie_breaks or not ck.lean.ok) and not ck.violations:
        # obligation broken: search harder with the direct oracle — every fault class thrown through the
        # logging contexts followed by an observed call, in fresh used processes
        ck.search_ran = True
        r3 = random.Random(rng.randrange(1 << 60))
        extra = []
        for i in range(96 if quick else 400):
            c = gen_case(r3, 100000 + i)
            c["history"] = [gen_call(r3, failing=True)[0] for _ in range(r3.randint(1, 4))] + c["history"][:2]
            extra.append(c)

        def one(c):
            return run_runner([{"id": c["id"], "calls": c["history"] + [c["observed"]]}], workdir)["results"][0]["calls"]

        for c, calls in zip(extra, pool_map(one, extra)):
            ck.count("search.cases")
            for k, (hspec, hres) in enumerate(zip(c["history"] + [c["observed"]], calls)):
                for w, d in problems_of(hspec, hres):
                    if w.startswith("render / to_rows") and is_f_c13_a(hspec, [(w, d)]):
                        continue
                    ck.violation(w + f" (call {k})", {"history": c["history"][:k], "observed": hspec, "detail": d})
                    break


def replay(path):
    rec = json.load(open(path))
    rp = rec.get("replay", {})
    print(json.dumps({k: v for k, v in rec.items() if k != "replay"}, indent=1, ensure_ascii=False)[:3000])
    if "observed" not in rp:
        print(json.dumps(rp, indent=1, ensure_ascii=False)[:4000])
        return 0
    spec, hist = rp["observed"], rp.get("history", [])
    print("observed call:", json.dumps(describe(spec), ensure_ascii=False)[:600])
    print("history:", json.dumps([describe(h) for h in hist], ensure_ascii=False)[:1500])
    wd = tempfile.mkdtemp(prefix="c13r_")
    try:
        F = run_runner([{"id": 0, "calls": [raw(spec)]}], wd)["results"][0]["calls"][0]
        calls = run_runner([{"id": 0, "calls": [raw(h) for h in hist] + [raw(spec)]}], wd)["results"][0]["calls"]
        U = calls[-1]
        for k, (h, r) in enumerate(zip(hist + [spec], calls)):
            print(f"call {k} {h['op']}: exc={r['exc']!r} audit={r['audit'][:2]} problems={call_problems(h, r)[:2]}")
        print("fresh problems:", call_problems(spec, F)[:3])
        if rp.get("hashseed") is not None:
            R = run_runner([{"id": 0, "calls": [raw(spec)]}], wd, hashseed=rp["hashseed"])["results"][0]["calls"][0]
            same_seed = canon_out(spec, F) == canon_out(spec, R)
            print(f"fresh == fresh under PYTHONHASHSEED={rp['hashseed']} (canonical):", same_seed)
            if not same_seed:
                print(" first difference:", bijection_problems({"r": F["result"], "e": F["exc"], "l": F["logs"]}, {"r": R["result"], "e": R["exc"], "l": R["logs"]}, given_ids(spec))[:2])
        print("invented uuids shared by the two runs:", sorted(set(F["invented"]) & set(U["invented"]))[:3])
        bp = bijection_problems(F["result"], U["result"], given_ids(spec))
        print("two-way bijection on invented uuids between the runs:", "ok" if not bp else bp[:2])
        same = canon_out(spec, F) == canon_out(spec, U)
        print("fresh == used (canonical):", same)
        if not same:
            print(" first difference:", bijection_problems({"r": F["result"], "e": F["exc"], "l": F["logs"]}, {"r": U["result"], "e": U["exc"], "l": U["logs"]}, given_ids(spec))[:2])
    finally:
        shutil.rmtree(wd, ignore_errors=True)
    return 0
