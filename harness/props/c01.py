"""C01 — every compiled flow is a referentially closed, importable RapidPro definition.

A  proof: Rpft.Props.C01 (compile_closed: the compiler model's output is closed for ALL event
   sequences; closedB_iff: the decision procedure IS the statement; closure implies every
   exit/choice resolves in the transition system).
T3 `closedB` (Lean, via the driver) on every flow the REAL compiler produces for generated sheets
   (core vocabulary, WFcore-violating side stream, node merging, blocks/loops/include_if, templates
   through a content index), plus the Python half of the statement on the whole document: plain
   JSON, no internal marker, invented identifiers well-formed UUID-4 and pairwise distinct.
"""
from __future__ import annotations

import json
import random

from .. import core, par
from .. import compile_tie
from ..flows import (canon_flow, compile_flow_sheet, compile_index, document_checks, rows_to_csv)
from ..gen import sheets as G
from ..gen import sugar as S

MANIFEST = dict(
    text="Proof: Lean theorems compile_closed_iff / compile_closed / compile_dests_resolve / compile_cases_resolve — for ALL event sequences (unbounded; rows, nested groups, inserted blocks) the output of the Lean compiler model (an arena state machine following FlowParser._parse_row, NodeGroups, routers, node constructors and add_nodes_to_flow line by line) is referentially closed: every destination is a node of the EMITTED flow and every case names a category of its own router (no hypothesis), and the output satisfies `Closed` (the literal statement of C01: node ids unique, categories and exits correspond one to one, every identifier used for one object only) EXACTLY WHEN its node ids are pairwise different (compile_closed_iff, for sheets with _nodeId values too: a duplicated given node id, finding F-C01-a, is the only way to a non-closed flow), hence always when the sheet gives no _nodeId (compile_closed); by invariants of the machine's execution (arena closure, identifier freshness w.r.t. the counter, well-formed group tree ⇒ emission covers the arena exactly once), kernel-checked negative witnesses needs_no_given_ids (= finding F-C01-a) and needs_plain_given_ids. The model is tied to the REAL FlowParser by exact comparison of outputs on every generated sheet, and closedB_iff (the executable closure check equals `Closed`) is additionally run on every flow the REAL compiler emits; the document-level clauses (plain JSON, no HARD_EXIT marker, invented ids are distinct well-formed UUID-4) are evaluated on the same outputs.",
    ref="§5 C01",
    note="Trusts: Lean kernel; the correspondence between the Lean compiler model and the real FlowParser (checked by exact output comparison on every generated sheet, not proved); JSON→Flow decoder of the driver; harness generators (strata reported). compile_closed needs the hypothesis 'no _nodeId given' (witness needs_no_given_ids); with given ids compile_closed_iff reduces closure to uniqueness of node ids (hypothesis: given ids do not start with '~', the shape of the model's invented ids; witness needs_plain_given_ids). Known finding F-C01-a (same _nodeId on an action row and a following router row) is outside the main stream and exercised deterministically.",
    technique="Lean 4 proof by invariants of the compiler model for all event sequences (compile_closed) + exact model/real-code tie + verified decision procedure (closedB_iff) run on real compiler output + document-level UUID/JSON checks",
)


def given_ids_of(rows) -> set:
    out = set()
    for r in rows:
        for k in ("obj_id", "_nodeId"):
            if r.get(k):
                out.add(r[k])
    return out


def check_doc(drv, doc, given, label):
    """returns list of problems for one rendered container"""
    problems = list(document_checks(doc, given))
    flows = doc.get("flows", [])
    answers = drv.results([{"op": "flow.closed", "flow": canon_flow(f)} for f in flows])
    for f, a in zip(flows, answers):
        if "__error__" in a:
            problems.append(f"driver could not read flow {f.get('name')}: {a['__error__']}")
        elif not a["closed"]:
            problems.append(f"flow {f.get('name')!r} is not closed: " + "; ".join(a["report"][:4]))
    return problems


def mutate_side_stream(rng, rows):
    """leave WFcore on purpose (C01 must hold there too, whenever the sheet compiles)"""
    rows = [dict(r) for r in rows]
    k = rng.random()
    cand = [r for r in rows if r.get("condition")]
    if k < 0.3 and cand:
        r = rng.choice(cand)
        r["condition_name"] = rng.choice(["Other", "Yes", "All Responses", "No Response"])
    elif k < 0.6 and cand:
        r = rng.choice(cand)
        r["condition_var"] = rng.choice(["@fields.a", "@fields.b", "@input.text"])
    elif cand:
        r = rng.choice(cand)
        r2 = rng.choice(cand)
        r2["condition"] = r["condition"]
        r2["condition_type"] = r.get("condition_type", "")
    return rows


def merge_stream(rng, n):
    """consecutive action rows merged into one node through _nodeId / node_name"""
    rows = [{"row_id": "1", "type": "send_message", "from": "start", "message_text": "first"}]
    i = 1
    for g in range(rng.randint(1, 4)):
        key = rng.choice(["_nodeId", "node_name"])
        name = f"node-{g}-{rng.randint(0, 999)}"
        for j in range(rng.randint(1, 4)):
            i += 1
            t = rng.choice(["send_message", "save_value", "add_to_group", "save_flow_result"])
            row = {"row_id": str(i), "type": t, "from": str(i - 1) if rng.random() < 0.7 else "", key: name,
                   "message_text": f"m{i}" if t != "add_to_group" else "GrpA", "save_name": "fld"}
            rows.append(row)
        if rng.random() < 0.5:
            i += 1
            rows.append({"row_id": str(i), "type": "wait_for_response", "from": str(i - 1)})
    return rows


F_C01_A = [
    {"row_id": "1", "type": "send_message", "from": "start", "message_text": "hello", "_nodeId": "2d3f0b52-93c7-4f4e-9f45-5a1c1c1e0a11"},
    {"row_id": "2", "type": "wait_for_response", "from": "1", "_nodeId": "2d3f0b52-93c7-4f4e-9f45-5a1c1c1e0a11"},
]


def worker(args):
    seed, n, maxrows = args
    rng = random.Random(seed)
    drv = core.Driver()
    stats = {}
    bad = []
    keys = []
    ties = []
    sample = None

    def bump(k, v=1):
        stats[k] = stats.get(k, 0) + v

    for i in range(n):
        r = rng.random()
        kind = "core"
        sheets = None
        if r < 0.35:
            dups = rng.random() < 0.35
            rows = G.gen_core_sheet(rng, rng.randint(2, maxrows), noop=rng.random() < 0.5, dups=dups)
            if dups:
                kind = "core_redeclared_tests_shared_categories"
        elif r < 0.5:
            kind = "side_wfcore_violating"
            rows = mutate_side_stream(rng, G.gen_core_sheet(rng, rng.randint(3, maxrows), noop=rng.random() < 0.3))
        elif r < 0.6:
            kind = "node_merging"
            rows = merge_stream(rng, maxrows)
        elif r < 0.85:
            kind = "blocks_loops"
            rows = S.gen_sugar_sheet(rng, rng.randint(3, maxrows))
        else:
            kind = "index_templates"
            sheets, rows = S.gen_index_workbook(rng)
        bump("generated." + kind)
        if sheets is not None:
            res, per_flow = compile_tie.trace_index(sheets)
            key = json.dumps(sheets, sort_keys=True)
            given = set()
            verdict, detail = compile_tie.compare_index(drv, res, per_flow)
            bump("model_tie_index." + verdict)
            if verdict == "disagree":
                ties.append({"csv": key, "detail": detail})
        else:
            # T2: the real parser is traced and the Lean compiler model (Rpft/Compile.lean) is run on
            # the same event sequence; outputs must be equal up to invented identifiers
            res, events = compile_tie.trace_compile(G.HEADERS, rows)
            key = rows_to_csv(G.HEADERS, rows)
            given = given_ids_of(rows)
            verdict, detail = compile_tie.compare(drv, res, events, given)
            bump("model_tie." + verdict)
            if verdict == "disagree":
                ties.append({"csv": key, "detail": detail})
        if not res.ok:
            bump("rejected_by_compiler." + kind)
            continue
        bump("compiled." + kind)
        bump("flows", len(res.doc["flows"]))
        bump("nodes", sum(len(f["nodes"]) for f in res.doc["flows"]))
        keys.append(key)
        if sample is None:
            sample = key[:1500]
        problems = check_doc(drv, res.doc, given, kind)
        if problems:
            bad.append({"kind": kind, "rows": rows, "sheets": sheets, "problems": problems[:6]})
    ties.sort(key=lambda t: len(t["csv"]))
    return {"stats": stats, "bad": bad[:10], "nbad": len(bad), "keys": keys, "sample": sample, "ties": ties[:5], "nties": len(ties)}


def shrink_rows(drv, rows):
    def failing(rs):
        res = compile_flow_sheet(G.HEADERS, rs)
        if not res.ok:
            return None
        p = check_doc(drv, res.doc, given_ids_of(rs), "")
        return p or None

    cur = list(rows)
    probs = failing(cur)
    changed = True
    while changed and len(cur) > 1:
        changed = False
        for i in range(len(cur) - 1, -1, -1):
            cand = cur[:i] + cur[i + 1:]
            p = failing(cand)
            if p:
                cur, probs, changed = cand, p, True
                break
    return cur, probs


def is_f_c01_a(rows, problems) -> bool:
    """trigger: some _nodeId value is carried by two rows that do not merge (the second has no
    action to add); pattern: duplicate node uuid / identifier used twice."""
    ids = [r.get("_nodeId") or r.get("node_name") for r in rows if (r.get("_nodeId") or r.get("node_name"))]
    dup = len(ids) != len(set(ids))
    router_types = set(G.ROUTER_TYPES) | {"no_op"}
    second_is_router = False
    seen = {}
    for r in rows:
        k = r.get("_nodeId") or r.get("node_name")
        if k:
            if k in seen and r["type"] in router_types:
                second_is_router = True
            seen[k] = True
    pattern = any("duplicate node uuid" in p or "used for two objects" in p for p in problems)
    return dup and second_is_router and pattern


def run(ck: core.Check):
    ck.lean = core.lean_step("C01", thorough=(ck.tier == "thorough"))
    if not core.DRIVER_BIN.exists():
        raise core.Infra("driver not built:\n" + ck.lean.log[-2000:])
    quick = ck.tier == "quick"
    ck.rule = (
        "workbooks from five seeded streams — core sheets (all row types, joins, go_to cycles, multi-edge rows, no_op), "
        "WFcore-violating sheets (clashing category names, mixed variables, duplicate tests), node merging via _nodeId/node_name, "
        "blocks/loops/include_if (nesting ≤ 3), content indexes with templates, data rows, arguments and insert_as_block — "
        "compiled by the real compiler; a case = one workbook that compiles without error; distinct = distinct text"
    )
    ck.assumptions = ["'compiles without reporting an error' = no exception and no log record ≥ ERROR in library mode"]
    ck.partial_gap = ["compile_closed / compile_closed_iff are proved for ALL event sequences of the Lean compiler model (full `Closed` when the sheet gives no _nodeId; with given _nodeIds: `Closed` ⇔ node ids pairwise different, F-C01-a being the failing case; destinations-in-the-emitted-flow and case→category without hypothesis); what links them to the real code is the exact comparison of model and real FlowParser outputs on every generated sheet (a tie, not a proof) — closure is therefore ALSO decided per explored real output by the verified procedure",
                      "UI positions, action content and group/flow uuid assignment are outside the compiler model (Compile.lean header); insert_as_block is modelled as a nested parser over the shared arena"]
    drv = core.Driver()

    # known-finding stream
    res = compile_flow_sheet(G.HEADERS, F_C01_A)
    if res.ok:
        probs = check_doc(drv, res.doc, given_ids_of(F_C01_A), "known")
        if probs and is_f_c01_a(F_C01_A, probs):
            ck.known("F-C01-a", "same _nodeId on an action row and a following router row: two nodes share one uuid, exit points at its own node, no log", {"csv": rows_to_csv(G.HEADERS, F_C01_A), "problems": probs[:3]})
        elif probs:
            ck.violation("known-finding input fails differently", {"csv": rows_to_csv(G.HEADERS, F_C01_A), "problems": probs})

    n_total = 1600 if quick else 30000
    maxrows = 20 if quick else 60
    nshards = par.NPROC * (1 if quick else 4)
    jobs = [(ck.rng.randrange(1 << 60), n_total // nshards, maxrows) for _ in range(nshards)]
    for r in par.pmap(worker, jobs):
        for k, v in r["stats"].items():
            ck.count(k, v)
        for key in r["keys"]:
            ck.case(key, nontrivial=True)
        if r["sample"] and len(ck.samples) < 3:
            ck.samples.append(r["sample"])
        for t in r["ties"]:
            ck.tie_break("Lean compiler model and real FlowParser produce different flows", t)
        ck.count("tie_break", max(0, r["nties"] - len(r["ties"])))
        for b in r["bad"]:
            if b["sheets"] is None:
                if len(ck.violations) >= 2:
                    ck.violation("compiled flow is not closed / document not well-formed (not shrunk): " + "; ".join(b["problems"][:2]),
                                 {"csv": rows_to_csv(G.HEADERS, b["rows"]) + "#" * 2000, "rows": b["rows"], "problems": b["problems"]})
                    continue
                rows, probs = shrink_rows(drv, b["rows"])
                if is_f_c01_a(rows, probs or []):
                    ck.known("F-C01-a", "same _nodeId on an action row and a following router row: duplicate node uuid", None)
                    continue
                ck.violation("compiled flow is not closed / document not well-formed: " + "; ".join((probs or b["problems"])[:2]),
                             {"csv": rows_to_csv(G.HEADERS, rows), "rows": rows, "problems": probs or b["problems"]})
            else:
                ck.violation("compiled workbook is not closed / document not well-formed: " + "; ".join(b["problems"][:2]),
                             {"sheets": b["sheets"], "problems": b["problems"]})
    for need in ("compiled.core", "compiled.blocks_loops", "compiled.index_templates", "compiled.node_merging", "compiled.side_wfcore_violating"):
        if ck.strata.get(need, 0) < 5:
            raise core.Infra(f"generator stratum {need} under-represented: {ck.strata.get(need, 0)}")


def replay(path):
    rec = json.load(open(path))
    print(json.dumps(rec, indent=1, ensure_ascii=False)[:6000])
    rp = rec.get("replay", {})
    drv = core.Driver()
    if rp.get("rows"):
        res = compile_flow_sheet(G.HEADERS, rp["rows"])
        print("compiles:", res.ok, res.exc, res.errors[:3])
        if res.ok:
            print(check_doc(drv, res.doc, given_ids_of(rp["rows"]), ""))
    elif rp.get("sheets"):
        res = compile_index(rp["sheets"])
        print("compiles:", res.ok, res.exc, res.errors[:3])
        if res.ok:
            print(check_doc(drv, res.doc, set(), ""))
    return 0
