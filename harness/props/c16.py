"""C16 — a template that names an unknown variable is an error, never silently blank.

A  proof step: Rpft.Props.C16 (undefined_is_error[_native|_cell|_parse], error_has_cause,
   defined_exact[_native], lenient_blank, policy_is_strict, omitted_unevaluated, shortcut_exact …)
   re-checked against tables regenerated from /repo (the `undefined` policy of both Jinja
   environments, delimiters, wrapper literals, presence of the native Undefined check).
B  tie: generated (template, context) pairs from the model's fragment, printed in Jinja syntax,
   through the REAL CellParser.parse / parse_as_string (CRITICAL-capturing handler) vs the Lean
   driver (`template.render`); the lenient policy of the model is tied to Jinja's default
   environments as well.
C  oracle (independent Python reading of the statement): a reached undefined reference ⇒ a
   CRITICAL record / exception and nothing delivered; everything defined ⇒ exactly the
   substituted text / value; context None ⇒ the stripped cell.
   END TO END: every cell of generated flow sheets with ONE injected missing name (library: not
   ok; CLI sample: exit ≠ 0, no output file), control with the name defined ⇒ the same flow as
   the literal sheet; indexes (data column absent, argument not declared, misspelt argument,
   loop variable after end_for, …); excluded blocks / empty loops are not evaluated; ONE template
   instantiated several times in one run (independence of instantiations: no name, value or loop
   variable of an earlier instantiation is visible to a later one).
"""
from __future__ import annotations

import ast as pyast
import copy
import json
import os
import random
import re
import shutil
import subprocess
import tempfile

from .. import core, par
from ..flows import LogCapture, compile_flow_sheet, compile_index, rename_uuids_by_first_occurrence, rows_to_csv
from ..gen import sheets as G

MANIFEST = dict(
    text="Proof: Lean theorems over a model of the templating step (mini template language lit/var/escVar/seq/forJoin/ifEq + expressions {{ e }}, {{ e ~ f }}, {@ e @} over references, x|default('d') and list / tuple / dict literals and dict(k=…) calls nested to any depth + native {@ path @}, contexts of nested records and lists, three Jinja `undefined` policies: the repo's strict one whose repr() fails too, plain StrictUndefined, the default): undefined_is_error (a REACHED undefined reference — also one STORED at any depth of a container literal that is printed, concatenated or returned — makes a strict rendering an error: text, native (undefined_is_error_nativeE), and at the parse_as_string/parse boundary for every context and padding; stored_undefined / holds_str_error / holds_findUndef: the stored reference survives as an Undefined object which every print and the wrapper's deep search meet), needs_deep_strict / needs_deep_check (kernel-checked witnesses that under plain StrictUndefined / a top-level-only check `[nope]` is delivered without error: the fix of F-C16-c is needed), error_has_cause + undefined_error_kind (the error names a reached undefined reference; no spurious errors), defined_exact (all reached references usable ⇒ under both policies exactly the template with each reference replaced by its value), lenient_blank / needs_strict / needs_native_check (negative witnesses: what Jinja's default did before the fix), shortcut_exact (the no-`{` shortcut never skips a reference), omitted_unevaluated (context None ⇒ stripped cell, render never called), if_false_unevaluated / for_empty_unevaluated, policy_is_strict + tables_agree (T1: a StrictUndefined whose repr() fails on BOTH environments and the DEEP native Undefined check, read from the live objects and by behaviour probes on every run). Tie: generated (template, context) pairs (every reference kind × every way of being missing; the class of F-C16-c: an undefined name at every depth of nested list/tuple/dict/dict() literals, printed / concatenated on either side / returned natively, each with a defined twin and a default-protected twin) through the real CellParser vs the driver, lenient model vs Jinja's default environments, strictShallow model vs plain StrictUndefined environments; direct oracle on containers outside the model (an undefined name as element / dict value / dict KEY / dict() argument of a container used by join, first, last, list, string, map, sort, reverse, +, ~, an index, a loop, set); end to end: every cell of generated sheets with one injected missing name (library + CLI sample), defined control ≡ literal sheet, index workbooks, excluded blocks; one template instantiated several times in one run from differently shaped contexts (two data sheets with different columns in both orders, data sheet then none, bulk then single row, argument sets, insert_as_block twice, loop variables): every instantiation must behave exactly as in a fresh run of its own — rejected when it names something only an EARLIER instantiation defined, exact own values otherwise (library + CLI sample).",
    ref="§5 C16",
    note="Trusts: Lean kernel (axioms audited each run); Jinja2's lexer/parser/evaluator on the generated fragment (modelled, compared on every case, not verified); harness printers and Driver JSON codec; the end-to-end clauses (delivered_no_blank over whole sheets) are checked on the real compiler per explored sheet, not proved (no compiler model for templated sheets). Known findings: F-C16-b (a single row with false include_if is templated before it is dropped), F-C16-d (residue of the fixed F-C16-c: an undefined name stored in a container that is only counted / indexed elsewhere / looped over without printing the element — `[nope]|length`, `[a, nope]|first`, `{% if [nope] %}` — is never used, so nothing fails; on the modelled consumers its trigger is the Lean predicate NamesUndef ∧ ¬UsedUndef).",
    technique="Lean 4 proof (induction on templates / on the Reached derivation) + T1 configuration tables + differential run against the real CellParser + fault injection at every cell of real sheets (library and CLI)",
)

PY = "/venv/bin/python"

# ------------------------------------------------------------------ vetted vocabularies

ROOTS = ["name", "word", "row", "item", "flag", "user", "entry", "data1", "lst", "abc", "msg", "arg1", "other"]
FIELDS = ["name", "word", "kind", "tag", "fld", "sub", "xs", "k1", "k2", "label"]
LOOPVARS = ["v", "w", "el", "name"]          # "name" shadows a root on purpose
MISSING = ["nope", "nmae", "wrod", "missing", "undefined_thing", "Name"]
WS = [" ", "  ", "\t", "\n", "\u00a0", "\u2003", " \r\n", "\u3000"]


def _vet():
    import jinja2

    g = set(jinja2.Environment().globals) | {"loop", "self", "true", "false", "none", "True", "False", "None", "in", "is", "if",
                                             "else", "for", "not", "and", "or", "endfor", "endif", "recursive"}
    for n in ROOTS + FIELDS + LOOPVARS + MISSING:
        assert n not in g, n
        for t in (str, list, dict):
            assert not hasattr(t, n), (t, n)
        assert n.isidentifier()


# ------------------------------------------------------------------ python mirror of the fragment (independent oracle)


def py_get(v, seg):
    kind, a = seg
    if isinstance(v, dict) and kind in ("f", "k"):
        return (True, v[a]) if a in v else (False, None)
    if isinstance(v, list) and kind == "i":
        return (True, v[a]) if a < len(v) else (False, None)
    if isinstance(v, str) and kind == "i":
        return (True, v[a]) if a < len(v) else (False, None)
    return (False, None)


def py_resolve(scope, path):
    """scope: list of (name, value), innermost first. → ('val', v) | ('undef',) | ('broken',)"""
    root, segs = path
    cur = ("undef",)
    for n, v in scope:
        if n == root:
            cur = ("val", v)
            break
    for s in segs:
        if cur[0] != "val":
            return ("broken",)
        ok, w = py_get(cur[1], s)
        cur = ("val", w) if ok else ("undef",)
    return cur


def py_items(v):
    if isinstance(v, list):
        return list(v)
    if isinstance(v, str):
        return list(v)
    return list(v.keys())


def py_show(v):
    return v if isinstance(v, str) else repr(v)


class Stop(Exception):
    def __init__(self, kind):
        self.kind = kind


def py_eval(scope, t):
    """strict evaluation; raises Stop('undefined'|'filterType') at the first failure"""
    k = next(iter(t))
    a = t[k]
    if k == "lit":
        return a
    if k == "var":
        r = py_resolve(scope, path_of(a))
        if r[0] != "val":
            raise Stop("undefined")
        return py_show(r[1])
    if k == "esc":
        r = py_resolve(scope, path_of(a))
        if r[0] != "val":
            raise Stop("undefined")
        if not isinstance(r[1], str):
            raise Stop("filterType")
        return r[1].replace("\\", "\\\\").replace("|", "\\|").replace(";", "\\;")
    if k == "seq":
        return "".join(py_eval(scope, x) for x in a)
    if k == "expr":
        # `{{ e }}` / `{{ e ~ f }}`: both operands are evaluated, then printed
        vals = [py_expr(scope, a["e"])] + ([py_expr(scope, a["cat"])] if a.get("cat") is not None else [])
        if any(has_undef(v) for v in vals):
            raise Stop("undefined")
        return "".join(py_show(v) for v in vals)
    if k == "for":
        r = py_resolve(scope, path_of(a["p"]))
        if r[0] != "val":
            raise Stop("undefined")
        return "".join(py_eval([(a["v"], e)] + scope, a["body"]) for e in py_items(r[1]))
    if k == "if":
        r = py_resolve(scope, path_of(a["p"]))
        if r[0] != "val":
            raise Stop("undefined")
        return py_eval(scope, a["body"]) if (isinstance(r[1], str) and r[1] == a["c"]) else ""
    raise AssertionError(k)


def path_of(j):
    return (j["root"], [tuple(s) for s in j["segs"]])


def path_j(root, segs):
    return {"root": root, "segs": [list(s) for s in segs]}


def show_path(j):
    out = j["root"]
    for kind, a in j["segs"]:
        out += f".{a}" if kind == "f" else (f"['{a}']" if kind == "k" else f"[{a}]")
    return out


def show_t(t):
    k = next(iter(t))
    a = t[k]
    if k == "lit":
        return a
    if k == "var":
        return "{{" + show_path(a) + "}}"
    if k == "esc":
        return "{{" + show_path(a) + "|escape}}"
    if k == "seq":
        return "".join(show_t(x) for x in a)
    if k == "expr":
        return "{{ " + show_e(a["e"]) + (" ~ " + show_e(a["cat"]) if a.get("cat") is not None else "") + " }}"
    if k == "for":
        return "{% for " + a["v"] + " in " + show_path(a["p"]) + " %}" + show_t(a["body"]) + "{% endfor %}"
    if k == "if":
        return "{% if " + show_path(a["p"]) + " == '" + a["c"] + "' %}" + show_t(a["body"]) + "{% endif %}"
    raise AssertionError(k)


# ---- expressions: references inside list / tuple / dict literals, dict(k=…), x|default('d')


class _Undef:
    """the oracle's own marker for "an undefined name was evaluated here" (no Jinja object involved)"""

    def __repr__(self):
        return "<UNDEF>"


UNDEF = _Undef()


def py_expr(scope, e):
    """value of an expression with UNDEF where an undefined reference is stored; Stop('undefined') when a step is
    taken past an undefined one"""
    k = next(iter(e))
    a = e[k]
    if k == "ref":
        r = py_resolve(scope, path_of(a))
        if r[0] == "broken":
            raise Stop("undefined")
        return r[1] if r[0] == "val" else UNDEF
    if k == "dflt":
        r = py_resolve(scope, (a["x"], []))
        return r[1] if r[0] == "val" else a["d"]
    if k in CONSUMERS:
        return py_consume(k, a, py_expr(scope, a["e"] if k in ("index", "join") else a))
    kind, items = a["k"], a["items"]
    vals = [(key, py_expr(scope, x)) for key, x in items]
    if kind == "list":
        return [v for _, v in vals]
    if kind == "tuple":
        return tuple(v for _, v in vals)
    return dict(vals)


CONSUMERS = ("len", "first", "last", "index", "join")


def py_str(v):
    """str() of a value for the oracle: an undefined marker inside (or the marker itself) cannot be printed"""
    if has_undef(v):
        raise Stop("undefined")
    if isinstance(v, str):
        return v
    if not repr_exact(v):
        raise Stop("off")       # a string with quotes / backslashes (a joined repr) printed inside a container: the model's repr is not exact there
    return repr(v)


def repr_exact(v):
    if isinstance(v, str):
        return v.isprintable() and not set(v) & set("'\"\\")
    if isinstance(v, (list, tuple)):
        return all(repr_exact(x) for x in v)
    if isinstance(v, dict):
        return all(repr_exact(x) for x in v.values())
    return True


def py_consume(k, a, v):
    """the documented meaning of the consumer on plain Python values (the oracle's own reading: the builtin
    filters count / select / join the elements of a sequence, a dict is its keys).  Stop('undefined'): the
    consumer is applied to an undefined value or has to print one; Stop('off'): outside the modelled fragment
    (empty sequence, index out of range or into a dict, a number as operand)"""
    if v is UNDEF:
        raise Stop("undefined")
    if isinstance(v, int):
        raise Stop("off")
    seq = list(v)          # str → characters, list / tuple → elements, dict → keys
    if k == "len":
        return len(seq)
    if k == "first" or k == "last":
        if not seq:
            raise Stop("off")
        return seq[0 if k == "first" else -1]
    if k == "index":
        if isinstance(v, dict) or a["i"] >= len(seq):
            raise Stop("off")
        return seq[a["i"]]
    return a["sep"].join(py_str(x) for x in seq)


def e_names_undef(scope, e):
    """the expression writes a reference (not under `|default`) that the context does not define"""
    k = next(iter(e))
    a = e[k]
    if k == "ref":
        return py_resolve(scope, path_of(a))[0] != "val"
    if k == "dflt":
        return False
    if k in CONSUMERS:
        return e_names_undef(scope, a["e"] if k in ("index", "join") else a)
    return any(e_names_undef(scope, x) for _, x in a["items"])


def has_undef(v):
    if v is UNDEF:
        return True
    if isinstance(v, (list, tuple)):
        return any(has_undef(x) for x in v)
    if isinstance(v, dict):
        return any(has_undef(x) for x in v.values())
    return False


def show_e(e):
    k = next(iter(e))
    a = e[k]
    if k == "ref":
        return show_path(a)
    if k == "dflt":
        return a["x"] + "|default('" + a["d"] + "')"
    if k == "len":
        return show_e(a) + "|length"
    if k in ("first", "last"):
        return show_e(a) + "|" + k
    if k == "join":
        return show_e(a["e"]) + "|join('" + a["sep"] + "')"
    if k == "index":
        inner = show_e(a["e"])
        if next(iter(a["e"])) in ("dflt", "len", "first", "last", "join"):
            inner = "(" + inner + ")"
        return inner + "[" + str(a["i"]) + "]"
    kind, items = a["k"], a["items"]
    if kind == "list":
        return "[" + ", ".join(show_e(x) for _, x in items) + "]"
    if kind == "tuple":
        return "(" + ", ".join(show_e(x) for _, x in items) + (",)" if len(items) == 1 else ")")
    if kind == "dict":
        return "{" + ", ".join("'" + key + "': " + show_e(x) for key, x in items) + "}"
    return "dict(" + ", ".join(key + "=" + show_e(x) for key, x in items) + ")"


def show_src(s):
    if "text" in s:
        return show_t(s["text"])
    if "natE" in s:
        return "{@" + s["natE"]["l"] + show_e(s["natE"]["e"]) + s["natE"]["r"] + "@}"
    if "natC" in s:
        return "{@" + s["natC"]["l"] + show_e(s["natC"]["e"]) + s["natC"]["r"] + "@}"
    if "textC" in s:
        x = s["textC"]
        return "{{ " + show_e(x["e"]) + (" ~ " + show_e(x["cat"]) if x.get("cat") else "") + " }}"
    if "nat" in s:
        return "{@" + s["nat"]["l"] + show_path(s["nat"]["p"]) + s["nat"]["r"] + "@}"
    return "{@" + show_path(s["nat2"][0]) + "@}{@" + show_path(s["nat2"][1]) + "@}"


def val_j(v):
    if isinstance(v, str):
        return v
    if isinstance(v, int) and not isinstance(v, bool):
        return v
    if isinstance(v, list):
        return [val_j(x) for x in v]
    if isinstance(v, tuple):
        return {"tuple": [val_j(x) for x in v]}
    if isinstance(v, dict):
        return {"rec": [[k, val_j(x)] for k, x in v.items()]}
    return {"py": repr(v)}


def ctx_j(ctx):
    return None if ctx is None else [[k, val_j(v)] for k, v in ctx.items()]


# ------------------------------------------------------------------ generators (cell level)

SAFE = "abcxyz 019;|"
WILD = "abXY \\|;'\"\n{}é日%#-_.:,"


def gen_str(rng, safe):
    if safe:
        n = rng.randint(0, 5)
        return "".join(rng.choice(SAFE) for _ in range(n))
    if rng.random() < 0.1:
        return "v{{name}}"          # a value that looks like a template: must not be evaluated again
    return "".join(rng.choice(WILD) for _ in range(rng.randint(0, 7)))


def gen_val(rng, depth, safe):
    r = rng.random()
    if depth >= 3 or r < 0.45:
        return gen_str(rng, safe)
    if r < 0.72:
        return [gen_val(rng, depth + 1, True) for _ in range(rng.randint(0, 3))]
    return {f: gen_val(rng, depth + 1, True) for f in rng.sample(FIELDS, rng.randint(0, 3))}


def gen_ctx(rng):
    r = rng.random()
    ctx = {}
    for n in rng.sample(ROOTS, rng.randint(1, 5)):
        ctx[n] = gen_val(rng, 1, False)
    # make sure there is something of every kind to point at
    if rng.random() < 0.8:
        ctx.setdefault("word", gen_str(rng, False) or "w")
    if rng.random() < 0.7:
        ctx["lst"] = [gen_val(rng, 2, True) for _ in range(rng.randint(0, 3))]
    if rng.random() < 0.7:
        ctx["row"] = {f: gen_val(rng, 2, True) for f in rng.sample(FIELDS, rng.randint(1, 4))}
    if rng.random() < 0.4:
        ctx["other"] = {f: gen_val(rng, 2, True) for f in rng.sample(FIELDS, rng.randint(1, 4))}
    return ctx


def all_paths(scope, maxdepth=3):
    """every defined path (root + steps) with its value"""
    out = []

    def walk(root, segs, v, d):
        out.append(((root, list(segs)), v))
        if d >= maxdepth:
            return
        if isinstance(v, dict):
            for k, x in v.items():
                walk(root, segs + [("f", k)], x, d + 1)
        elif isinstance(v, list):
            for i, x in enumerate(v):
                walk(root, segs + [("i", i)], x, d + 1)
        elif isinstance(v, str) and v and d < 2:
            out.append(((root, segs + [("i", 0)]), v[0]))

    seen = set()
    for n, v in scope:
        if n not in seen:
            seen.add(n)
            walk(n, [], v, 0)
    return out


def restyle(rng, path):
    root, segs = path
    return (root, [("k", a) if (k == "f" and rng.random() < 0.3) else (k, a) for k, a in segs])


MISSING_KINDS = ["misspelt_root", "misspelt_field", "missing_attr", "sibling_field", "index_out_of_range",
                 "attr_of_non_record", "step_past_undefined", "int_index_on_record", "case_changed_root"]


def break_path(rng, scope, kind):
    """a path that is NOT defined in `scope`, built the way `kind` says; None if impossible here"""
    paths = all_paths(scope)
    names = {n for n, _ in scope}
    miss = [m for m in MISSING if m not in names]
    if not miss:
        return None
    recs = [(p, v) for p, v in paths if isinstance(v, dict)]
    lists = [(p, v) for p, v in paths if isinstance(v, list)]
    if kind == "misspelt_root":
        cands = [(p, v) for p, v in paths]
        p, _ = rng.choice(cands) if cands else ((rng.choice(miss), []), None)
        return (rng.choice(miss), p[1])
    if kind == "case_changed_root":
        roots = [n for n in names if n.capitalize() not in names and n.capitalize() != n]
        if not roots:
            return None
        return (rng.choice(sorted(roots)).capitalize(), [])
    if kind == "misspelt_field":
        cands = [(p, v) for p, v in paths if p[1] and p[1][-1][0] == "f"]
        if not cands:
            return None
        p, _ = rng.choice(cands)
        return (p[0], p[1][:-1] + [("f", rng.choice(MISSING))])
    if kind == "missing_attr":
        if not recs:
            return None
        p, v = rng.choice(recs)
        f = rng.choice([m for m in MISSING + FIELDS if m not in v])
        return (p[0], p[1] + [("f", f)])
    if kind == "sibling_field":
        pairs = [(pa, fb) for pa, va in recs for pb, vb in recs for fb in vb if fb not in va and pa != pb]
        if not pairs:
            return None
        pa, fb = rng.choice(pairs)
        return (pa[0], pa[1] + [("f", fb)])
    if kind == "index_out_of_range":
        if not lists:
            return None
        p, v = rng.choice(lists)
        return (p[0], p[1] + [("i", len(v) + rng.randint(0, 2))])
    if kind == "attr_of_non_record":
        cands = [(p, v) for p, v in paths if not isinstance(v, dict)]
        if not cands:
            return None
        p, _ = rng.choice(cands)
        return (p[0], p[1] + [("f", rng.choice(FIELDS))])
    if kind == "step_past_undefined":
        base = break_path(rng, scope, rng.choice(["misspelt_root", "missing_attr", "index_out_of_range"]))
        if base is None:
            return None
        return (base[0], base[1] + [rng.choice([("f", "word"), ("i", 0)])])
    if kind == "int_index_on_record":
        if not recs:
            return None
        p, _ = rng.choice(recs)
        return (p[0], p[1] + [("i", 0)])
    raise AssertionError(kind)


LIT_TOKENS = ["a", "b", "Hello", " ", " ", ";", "|", "\\", "\n", "{ x", "}", "é", "日", "1", ",", ":", "x}}", "%", "@", "-"]


def gen_lit(rng):
    return "".join(rng.choice(LIT_TOKENS) for _ in range(rng.randint(0, 4)))


def pick(rng, scope, want):
    """a defined path whose value has the wanted shape (str | list | any | iter); None if none"""
    paths = all_paths(scope)
    if want == "str":
        c = [p for p, v in paths if isinstance(v, str)]
    elif want == "list":
        c = [p for p, v in paths if isinstance(v, list)]
    elif want == "iter":
        c = [p for p, v in paths if not isinstance(v, str) or rng.random() < 0.3]
    else:
        c = [p for p, v in paths]
    return restyle(rng, rng.choice(c)) if c else None


def ref_piece(rng, scope, path, use, depth=0):
    """a template piece that uses `path` as `use` (print | esc | for | if)"""
    pj = path_j(*path)
    if use == "print":
        return {"var": pj}
    if use == "esc":
        return {"esc": pj}
    if use == "for":
        v = rng.choice(LOOPVARS)
        r = py_resolve(scope, path)
        inner = scope
        if r[0] == "val":
            its = py_items(r[1])
            inner = [(v, its[0])] + scope if its else scope
        return {"for": {"v": v, "p": pj, "body": gen_body(rng, inner, depth + 1, loopvar=v if (r[0] == "val" and py_items(r[1])) else None)}}
    if use == "if":
        r = py_resolve(scope, path)
        c = r[1] if (r[0] == "val" and isinstance(r[1], str) and "'" not in r[1] and "\\" not in r[1] and "\n" not in r[1] and rng.random() < 0.6) else rng.choice(["a", "zz", ""])
        return {"if": {"p": pj, "c": c, "body": gen_body(rng, scope, depth + 1)}}
    raise AssertionError(use)


def good_piece(rng, scope, depth=0, loopvar=None):
    r = rng.random()
    if r < 0.3 or depth > 2:
        return {"lit": gen_lit(rng)}
    if loopvar and r < 0.5:
        return {"var": path_j(loopvar, [])} if not isinstance(dict(scope[:1]).get(loopvar), (dict, list)) or rng.random() < 0.5 else {"var": path_j(loopvar, [])}
    use = rng.choice(["print", "print", "esc", "for", "if"])
    want = {"print": "any", "esc": "str", "for": "iter", "if": "any"}[use]
    p = pick(rng, scope, want)
    if p is None:
        return {"lit": gen_lit(rng)}
    return ref_piece(rng, scope, p, use, depth)


def gen_body(rng, scope, depth, loopvar=None):
    n = rng.randint(1, 3)
    return {"seq": [good_piece(rng, scope, depth, loopvar) for _ in range(n)]}


def trim_ends(pieces):
    """the cell is stripped before Jinja sees it: keep whitespace out of the two ends"""
    if pieces and "lit" in pieces[0]:
        pieces[0] = {"lit": pieces[0]["lit"].lstrip()}
    if pieces and "lit" in pieces[-1]:
        pieces[-1] = {"lit": pieces[-1]["lit"].rstrip()}
    # a literal `{` must not run into a following `{{` / `{%`
    for i, p in enumerate(pieces[:-1]):
        if "lit" in p and p["lit"].endswith("{"):
            pieces[i] = {"lit": p["lit"] + "."}
    return pieces


def literal_like(s):
    try:
        pyast.literal_eval(s)
        return True
    except (ValueError, SyntaxError, MemoryError, RecursionError, TypeError):
        return False


def gen_case(rng):
    """one (template, context) pair with its stratum labels"""
    ctx = gen_ctx(rng)
    mode = rng.random()
    labels = {}
    scope = list(ctx.items())
    inject = None
    if mode < 0.08:
        # omitted templating: context None — anything goes, also undefined names
        ctx_used = None
        labels["ctx"] = "none"
    elif mode < 0.16:
        ctx_used = {}
        scope = []
        labels["ctx"] = "empty"
    else:
        ctx_used = ctx
        labels["ctx"] = "full"
    want_missing = rng.random() < 0.5
    native = rng.random() < 0.22
    if native:
        if rng.random() < 0.08:
            a = pick(rng, scope, "any") or (rng.choice(MISSING), [])
            b = pick(rng, scope, "any") or (rng.choice(MISSING), [])
            src = {"nat2": [path_j(*a), path_j(*b)]}
            labels["kind"] = "native_two"
        else:
            p = None
            if want_missing or not scope:
                inject = rng.choice(MISSING_KINDS)
                p = break_path(rng, scope, inject)
                if p is None:
                    inject = "misspelt_root"
                    p = (rng.choice(MISSING), [])
            else:
                p = pick(rng, scope, "any")
            pad = lambda: rng.choice(["", " ", "  ", "\n"])
            src = {"nat": {"l": pad(), "p": path_j(*restyle(rng, p)), "r": pad()}}
            labels["kind"] = "native"
    else:
        n = rng.randint(1, 4)
        pieces = [good_piece(rng, scope) for _ in range(n)]
        labels["kind"] = "text"
        if want_missing or not scope:
            inject = rng.choice(MISSING_KINDS + ["loop_var_outside"])
            where = rng.choice(["top", "top", "in_for", "in_if_true", "unreached_if", "unreached_for"])
            if inject == "loop_var_outside":
                xs = pick(rng, scope, "list")
                v = rng.choice([x for x in LOOPVARS if x not in dict(scope)])
                if xs is None:
                    inject, piece = "misspelt_root", {"var": path_j(rng.choice(MISSING), [])}
                else:
                    inner = {"seq": [{"lit": "["}, {"var": path_j(v, [])}, {"lit": "]"}]}
                    piece = {"seq": [{"for": {"v": v, "p": path_j(*xs), "body": inner}}, {"lit": gen_lit(rng)}, {"var": path_j(v, [])}]}
                where = "top"
            else:
                p = break_path(rng, scope, inject)
                if p is None:
                    inject = "misspelt_root"
                    p = (rng.choice(MISSING), [])
                use = rng.choice(["print", "print", "esc", "for", "if"])
                piece = ref_piece(rng, scope, restyle(rng, p), use)
                labels["use"] = use
            if where == "in_for":
                xs = [(q, v) for q, v in all_paths(scope) if isinstance(v, list) and v]
                if xs:
                    q, _ = rng.choice(xs)
                    piece = {"for": {"v": "el", "p": path_j(*q), "body": {"seq": [{"lit": "<"}, piece, {"lit": ">"}]}}}
                else:
                    where = "top"
            elif where == "in_if_true":
                ss = [(q, v) for q, v in all_paths(scope) if isinstance(v, str) and not set(v) & set("'\\\n")]
                if ss:
                    q, v = rng.choice(ss)
                    piece = {"if": {"p": path_j(*q), "c": v, "body": piece}}
                else:
                    where = "top"
            elif where == "unreached_if":
                ss = [(q, v) for q, v in all_paths(scope)]
                if ss:
                    q, v = rng.choice(ss)
                    piece = {"if": {"p": path_j(*q), "c": (v + "x") if isinstance(v, str) and not set(v) & set("'\\\n") else "zz", "body": piece}}
                else:
                    where = "top"
            elif where == "unreached_for":
                es = [(q, v) for q, v in all_paths(scope) if not py_items(v)]
                if es:
                    q, _ = rng.choice(es)
                    piece = {"for": {"v": "el", "p": path_j(*q), "body": piece}}
                else:
                    where = "top"
            labels["where"] = where
            pieces.insert(rng.randint(0, len(pieces)), piece)
        src = {"text": {"seq": trim_ends(pieces)}}
    labels["inject"] = inject or "none"
    text = show_src(src)
    if text != text.strip():
        return None
    value = rng.choice(["", "", ""] + WS) + text + rng.choice(["", "", ""] + WS)
    fn = rng.choice(["pas", "parse"])
    return {"value": value, "ctx": ctx_used, "ast": src, "fn": fn, "labels": labels}


# ------------------------------------------------------------------ generators: the CLASS of F-C16-c
# an undefined name stored at every depth of nested list / tuple / dict literals and dict(k=…) calls (as the value
# of a dict entry, as an element), printed ({{ e }}), concatenated ({{ a ~ e }}, {{ e ~ a }}) or returned ({@ e @}),
# each with a DEFINED twin (exact value) and a `|default('d')`-protected twin (NOT an error).

E_KINDS = ["list", "tuple", "dict", "dictcall"]
E_DEFAULTS = ["d", "dflt", "zz", "", "none given"]


def repr_safe(v):
    """values whose Python repr the model prints exactly: no quotes / backslashes / unprintable characters"""
    if isinstance(v, str):
        return v.isprintable() and not set(v) & set("'\"\\")
    if isinstance(v, list):
        return all(repr_safe(x) for x in v)
    if isinstance(v, dict):
        return all(repr_safe(x) for x in v.values())
    return False


def e_leaf(rng, scope):
    """a harmless leaf: a defined reference, or a `default`-protected name (defined or not)"""
    r = rng.random()
    names = {n for n, _ in scope}
    if r < 0.2:
        cands = [n for n, v in scope if repr_safe(v)] if rng.random() < 0.5 else []
        miss = [m for m in MISSING if m not in names]
        x = rng.choice(cands) if cands else (rng.choice(miss) if miss else None)
        if x is not None:
            return {"dflt": {"x": x, "d": rng.choice(E_DEFAULTS)}}
    c = [p for p, v in all_paths(scope) if repr_safe(v)]
    if not c:
        return {"coll": {"k": "list", "items": []}}
    return {"ref": path_j(*restyle(rng, rng.choice(c)))}


def e_skeleton(rng, scope, depth, hole_path):
    """a container expression of the given nesting depth whose innermost level holds the marker `HOLE`;
    hole_path records the kinds on the way down"""
    kind = rng.choice(E_KINDS)
    hole_path.append(kind)
    n = rng.randint(1, 3)
    at = rng.randrange(n)
    keys = rng.sample(FIELDS, n) if kind in ("dict", "dictcall") else [""] * n
    items = []
    for i in range(n):
        if i == at:
            x = "HOLE" if depth <= 1 else e_skeleton(rng, scope, depth - 1, hole_path)
        elif rng.random() < 0.25 and depth > 1:
            x = e_skeleton(rng, scope, 1, [])
            x = fill_hole(x, e_leaf(rng, scope))
        else:
            x = e_leaf(rng, scope)
        items.append([keys[i], x])
    return {"coll": {"k": kind, "items": items}}


def fill_hole(e, leaf):
    if e == "HOLE":
        return leaf
    if "coll" in e:
        return {"coll": {"k": e["coll"]["k"], "items": [[k, fill_hole(x, leaf)] for k, x in e["coll"]["items"]]}}
    return e


def gen_expr_cases(rng):
    """one skeleton → the undefined case, its defined twin and its default-protected twin"""
    ctx = gen_ctx(rng)
    ctx.setdefault("word", "w")
    scope = list(ctx.items())
    names = set(ctx)
    miss = [m for m in MISSING if m not in names]
    if not miss:
        return []
    depth = rng.choice([1, 1, 2, 2, 3, 4])
    hp = []
    skel = e_skeleton(rng, scope, depth, hp)
    inject = rng.choice(["misspelt_root", "misspelt_root", "misspelt_field", "missing_attr", "index_out_of_range", "step_past_undefined", "case_changed_root"])
    bad = break_path(rng, scope, inject)
    if bad is None:
        inject, bad = "misspelt_root", (rng.choice(miss), [])
    twins = [("undefined", {"ref": path_j(*restyle(rng, bad))}, inject),
             ("defined", e_leaf(rng, scope), "none"),
             ("default", {"dflt": {"x": rng.choice(miss), "d": rng.choice(E_DEFAULTS)}}, "none")]
    form = rng.choice(["print", "print", "cat_right", "cat_left", "native", "native"])
    out = []
    for twin, leaf, inj in twins:
        e = fill_hole(skel, leaf)
        if form == "native":
            pad = lambda: rng.choice(["", " ", "  ", "\n"])
            src = {"natE": {"l": pad(), "e": e, "r": pad()}}
        else:
            other = e_leaf(rng, scope) if form != "print" else None
            ex = {"e": e, "cat": None} if form == "print" else ({"e": other, "cat": e} if form == "cat_right" else {"e": e, "cat": other})
            pieces = [{"lit": gen_lit(rng)}] if rng.random() < 0.3 else []
            pieces.insert(rng.randint(0, len(pieces)), {"expr": ex})
            src = {"text": {"seq": trim_ends(pieces)}}
        text = show_src(src)
        if text != text.strip():
            continue
        value = rng.choice(["", "", ""] + WS) + text + rng.choice(["", "", ""] + WS)
        labels = {"ctx": "full", "kind": "expr_native" if form == "native" else "expr_text", "inject": inj,
                  "expr": {"twin": twin, "form": form, "depth": depth, "hole_in": hp[-1], "via": "/".join(hp)}}
        out.append({"value": value, "ctx": ctx, "ast": src, "fn": rng.choice(["pas", "parse"]), "labels": labels})
    return out


# ------------------------------------------------------------------ consumers of containers (the model's `CExpr`)
# `|length`, `|first`, `|last`, `[i]`, `|join('sep')` wrapped around the container levels of a skeleton (nesting 1–3,
# consumers stacked up to two high), the hole again in three twins.  Whether the undefined hole is USED (selected and
# printed, joined, consumed itself) or only counted / selected away is decided by the MODEL (`UsedUndef`), not here.

JOIN_SEPS = ["-", ", ", "", "+", " / ", ";", "|"]


def c_wrap(rng, e, kind, n):
    """one consumer around a container expression of `n` items"""
    ops = ["len", "first", "last", "join"] + ([] if kind in ("dict", "dictcall") or n == 0 else ["index", "index"])
    op = rng.choice(ops)
    if op == "index":
        return {"index": {"e": e, "i": rng.randrange(n)}}
    if op == "join":
        return {"join": {"e": e, "sep": rng.choice(JOIN_SEPS)}}
    return {op: e}


def c_skeleton(rng, scope, depth, hole_path, force):
    kind = rng.choice(E_KINDS)
    n = rng.randint(1, 3)
    at = rng.randrange(n)
    keys = rng.sample(FIELDS, n) if kind in ("dict", "dictcall") else [""] * n
    items = []
    for i in range(n):
        if i == at:
            x = "HOLE" if depth <= 1 else c_skeleton(rng, scope, depth - 1, hole_path, False)
        elif rng.random() < 0.2:
            x = fill_hole_c(c_skeleton(rng, scope, 1, [], False), e_leaf(rng, scope))
        else:
            x = e_leaf(rng, scope)
        items.append([keys[i], x])
    e = {"coll": {"k": kind, "items": items}}
    tag = kind
    if force or rng.random() < 0.6:
        e = c_wrap(rng, e, kind, n)
        tag += "|" + next(iter(e))
        if rng.random() < 0.3:                       # a second consumer on the result (may leave the fragment: filtered below)
            op = rng.choice(["len", "first", "last", "index", "join"])
            e = {"index": {"e": e, "i": rng.randrange(2)}} if op == "index" else ({"join": {"e": e, "sep": rng.choice(JOIN_SEPS)}} if op == "join" else {op: e})
            tag += "|" + op
    hole_path.insert(0, tag)
    return e


def fill_hole_c(e, leaf):
    if e == "HOLE":
        return leaf
    k = next(iter(e))
    a = e[k]
    if k == "coll":
        return {"coll": {"k": a["k"], "items": [[key, fill_hole_c(x, leaf)] for key, x in a["items"]]}}
    if k in ("index", "join"):
        return {k: {**a, "e": fill_hole_c(a["e"], leaf)}}
    if k in ("len", "first", "last"):
        return {k: fill_hole_c(a, leaf)}
    return e


def in_fragment(scope, e, printed=True):
    try:
        v = py_expr(scope, e)
        if printed:
            py_str(v)
    except Stop as st:
        return st.kind != "off"
    return True


def gen_cexpr_cases(rng):
    """one skeleton with consumers → the undefined case, its defined twin and its default-protected twin"""
    ctx = gen_ctx(rng)
    ctx.setdefault("word", "w")
    scope = list(ctx.items())
    miss = [m for m in MISSING if m not in set(ctx)]
    if not miss:
        return []
    depth = rng.choice([1, 1, 2, 2, 3])
    hp = []
    skel = c_skeleton(rng, scope, depth, hp, True)
    inject = rng.choice(["misspelt_root", "misspelt_root", "misspelt_root", "misspelt_field", "missing_attr", "index_out_of_range", "step_past_undefined", "case_changed_root"])
    bad = break_path(rng, scope, inject)
    if bad is None:
        inject, bad = "misspelt_root", (rng.choice(miss), [])
    twins = [("undefined", {"ref": path_j(*restyle(rng, bad))}, inject),
             ("defined", e_leaf(rng, scope), "none"),
             ("default", {"dflt": {"x": rng.choice(miss), "d": rng.choice(E_DEFAULTS)}}, "none")]
    form = rng.choice(["print", "print", "cat_right", "cat_left", "native", "native"])
    other = e_leaf(rng, scope) if form in ("cat_right", "cat_left") else None
    if other is not None and rng.random() < 0.4:
        o = fill_hole_c(c_skeleton(rng, scope, 1, [], True), e_leaf(rng, scope))
        other = o if in_fragment(scope, o) else other
    exprs = [(t, fill_hole_c(skel, leaf), inj) for t, leaf, inj in twins]
    if not all(in_fragment(scope, e, form != "native") for _, e, _ in exprs):
        return []                                    # a consumer leaves the fragment for one of the twins
    out = []
    for twin, e, inj in exprs:
        if form == "native":
            pad = lambda: rng.choice(["", " ", "  ", "\n"])
            src = {"natC": {"l": pad(), "e": e, "r": pad()}}
        else:
            src = {"textC": {"e": e, "cat": None} if form == "print" else ({"e": other, "cat": e} if form == "cat_right" else {"e": e, "cat": other})}
        text = show_src(src)
        if text != text.strip():
            continue
        value = rng.choice(["", "", ""] + WS) + text + rng.choice(["", "", ""] + WS)
        labels = {"ctx": "full", "kind": "cexpr_native" if form == "native" else "cexpr_text", "inject": inj,
                  "cexpr": {"twin": twin, "form": form, "depth": depth, "via": "/".join(hp), "top": hp[0].split("|", 1)[-1] if "|" in hp[0] else "none"}}
        out.append({"value": value, "ctx": ctx, "ast": src, "fn": rng.choice(["pas", "parse"]), "labels": labels})
    return out


def _r(n):
    return {"ref": {"root": n, "segs": []}}


def _c(kind, *xs):
    return {"coll": {"k": kind, "items": [[k, x] for k, x in xs]}}


def fixed_cexpr_cases():
    """the shapes of F-C16-d that the model covers (deterministic, every run) and their USED counterparts"""
    ctx = {"a": "A", "row": {"name": "N"}}
    L = lambda *xs: _c("list", *[("", x) for x in xs])
    shapes = [
        ("print", {"len": L(_r("nope"))}),                               # {{ [nope]|length }}
        ("native", {"len": L(_r("nope"), _r("a"))}),                     # {@ [nope, a]|length @}
        ("print", {"first": L(_r("a"), _r("nope"))}),                    # {{ [a, nope]|first }}
        ("print", {"last": L(_r("nope"), _r("a"))}),                     # {{ [nope, a]|last }}
        ("print", {"index": {"e": L(_r("a"), _r("nope")), "i": 0}}),     # {{ [a, nope][0] }}
        ("print", {"len": _c("dict", ("k", _r("nope")))}),               # {{ {'k': nope}|length }}
        ("print", {"first": _c("dict", ("k", _r("nope")))}),             # {{ {'k': nope}|first }}
        ("print", {"join": {"e": _c("dictcall", ("k", _r("nope"))), "sep": "-"}}),   # {{ dict(k=nope)|join('-') }}
        ("print", L({"len": L(_r("a"), _r("nope"))})),                   # {{ [[a, nope]|length] }}
        ("print", {"len": {"first": L(L(_r("nope")), _r("a"))}}),        # {{ [[nope], a]|first|length }}
        # USED: must be errors
        ("print", {"first": L(_r("nope"), _r("a"))}),                    # {{ [nope, a]|first }}
        ("native", {"last": L(_r("a"), _r("nope"))}),                    # {@ [a, nope]|last @}
        ("print", {"index": {"e": L(_r("a"), _r("nope")), "i": 1}}),     # {{ [a, nope][1] }}
        ("print", {"join": {"e": L(_r("a"), _r("nope")), "sep": "-"}}),  # {{ [a, nope]|join('-') }}
        ("print", {"join": {"e": L(_r("a"), L(_r("nope"))), "sep": "-"}}),
        ("print", {"first": L(L(_r("nope")), _r("a"))}),                 # {{ [[nope], a]|first }}
        ("print", {"len": _r("nope")}),                                  # {{ nope|length }}
        ("native", L({"first": L(_r("nope"))})),                         # {@ [[nope]|first] @}
        ("native", {"first": L(_c("tuple", ("", _r("nope")), ("", _r("a"))))}),       # {@ [(nope, a)]|first @}: the selected tuple holds it
        ("native", {"last": L(_r("a"), _c("dict", ("k", L(_r("nope")))))}),           # {@ [a, {'k': [nope]}]|last @}
    ]
    out = []
    for form, e in shapes:
        for twin, name in (("undefined", "nope"), ("defined", "a")):
            ee = json.loads(json.dumps(e).replace('"nope"', json.dumps(name)))
            src = {"natC": {"l": " ", "e": ee, "r": " "}} if form == "native" else {"textC": {"e": ee, "cat": None}}
            labels = {"ctx": "full", "kind": "cexpr_native" if form == "native" else "cexpr_text", "inject": "misspelt_root" if twin == "undefined" else "none",
                      "cexpr": {"twin": twin, "form": form, "depth": 0, "via": "fixed", "top": next(iter(e))}}
            out.append({"value": show_src(src), "ctx": ctx, "ast": src, "fn": "pas", "labels": labels})
    return out


# ------------------------------------------------------------------ real side


def error_kind(msg: str) -> str:
    """kind of a CRITICAL record of the cell parser.  The part that tells the kinds apart is the text of the
    JINJA exception the record ends with (library wording: `'x' is undefined`, `… has no attribute 'replace'`), read
    off the END of the message — the repo's own words around it (`Error while parsing cell … with context …:`) are
    not relied on.  Only the nested-template record has no library text; it is recognised by what it names."""
    m = msg.rstrip()
    if re.search(r"'\w+' object has no attribute 'replace'$", m):
        return "filterType"
    if re.search(r"is undefined$|object' has no attribute '[^'\n]*'$|object has no element [^\n]*$", m):
        return "undefined"
    if re.search(r"nested|more than one|only one|single template", m, re.I):
        return "nestedNative"
    return "other:" + m.rsplit('": ', 1)[-1][:80]


def lenient_parser():
    """a CellParser whose environments use Jinja's default Undefined (what the repo had before the
    fix) — to tie the model's `lenient` policy; the repo is not edited"""
    from jinja2 import Environment
    from jinja2.nativetypes import NativeEnvironment
    from rpft.parsers.common.cellparser import CellParser

    cp = CellParser()
    old_e, old_n = cp.env, cp.native_env
    cp.env = Environment()
    cp.native_env = NativeEnvironment(variable_start_string=old_n.variable_start_string, variable_end_string=old_n.variable_end_string)
    for k in ("escape", "eval"):
        cp.env.filters[k] = old_e.filters[k]
        cp.native_env.filters[k] = old_n.filters[k]
    return cp


def shallow_parser():
    """a CellParser whose environments use Jinja's plain StrictUndefined (str() fails, repr() is the word
    'Undefined': what the repo had before the fix of F-C16-c) — to tie the model's `strictShallow` policy"""
    from jinja2 import Environment, StrictUndefined
    from jinja2.nativetypes import NativeEnvironment
    from rpft.parsers.common.cellparser import CellParser

    cp = CellParser()
    old_e, old_n = cp.env, cp.native_env
    cp.env = Environment(undefined=StrictUndefined)
    cp.native_env = NativeEnvironment(variable_start_string=old_n.variable_start_string, variable_end_string=old_n.variable_end_string, undefined=StrictUndefined)
    for k in ("escape", "eval"):
        cp.env.filters[k] = old_e.filters[k]
        cp.native_env.filters[k] = old_n.filters[k]
    return cp


def contains_undefined(x):
    from jinja2 import Undefined

    if isinstance(x, Undefined):
        return True
    if isinstance(x, (list, tuple)):
        return any(contains_undefined(y) for y in x)
    if isinstance(x, dict):
        return any(contains_undefined(y) for y in x.values())
    return False


def safe_repr(x):
    try:
        return repr(x)
    except Exception as e:  # noqa: BLE001  (the repr() of the repo's undefined object raises)
        return f"<{type(x).__name__} whose repr() raises {type(e).__name__}: {e}>"


def run_real(cp, case):
    """→ (canonical outcome comparable with the driver's answer, raw facts for the oracle)"""
    from jinja2 import Undefined
    from rpft.parsers.common.cellparser import CellParser

    value, ctx, fn = case["value"], copy.deepcopy(case["ctx"]), case["fn"]
    flag = CellParser.BooleanWrapper()
    exc = None
    res = None
    with LogCapture() as cap:
        try:
            res = cp.parse_as_string(value, ctx, flag)
            if fn == "parse":
                res = cp.parse(value, copy.deepcopy(case["ctx"]))
        except Exception as e:  # noqa: BLE001
            exc = f"{type(e).__name__}: {e}"
    crit = cap.criticals()
    facts = {"crit": crit[:2], "exc": exc, "res": res, "is_object": flag.boolean}
    if crit:
        out = {"error": error_kind(crit[0])}
    elif exc:
        out = {"error": "exception:" + exc[:80]}
    elif isinstance(res, Undefined):
        out = {"undefined_object": True}
    elif contains_undefined(res):
        out = {"holds_undefined": True}
    elif flag.boolean:
        out = {"value": val_j(res)}
    elif fn == "parse":
        out = {"cell": res}
    else:
        out = {"text": res}
    return out, facts


def expected(case):
    """independent reading of the statement for one case:
    ('stripped', s) | ('error_required',) | ('type_error',) | ('nested',) | ('text', s) | ('value', v)"""
    value, ctx, src = case["value"], case["ctx"], case["ast"]
    stripped = value.strip()
    if ctx is None:
        return ("stripped", stripped)
    scope = list(ctx.items())
    if "nat2" in src:
        return ("nested",)
    if "textC" in src or "natC" in src:
        # the statement: a cell that NAMES an undefined variable is an error (whatever is then done with it);
        # otherwise exactly the value of the expression
        x = src.get("textC") or src["natC"]
        es = [x["e"]] + ([x["cat"]] if x.get("cat") else [])
        if any(e_names_undef(scope, e) for e in es):
            return ("error_required",)
        vs = [py_expr(scope, e) for e in es]
        return ("value", vs[0]) if "natC" in src else ("text", "".join(py_str(v) for v in vs))
    if "natE" in src:
        try:
            v = py_expr(scope, src["natE"]["e"])
        except Stop:
            return ("error_required",)
        return ("error_required",) if has_undef(v) else ("value", v)
    if "nat" in src:
        r = py_resolve(scope, path_of(src["nat"]["p"]))
        return ("value", r[1]) if r[0] == "val" else ("error_required",)
    try:
        return ("text", py_eval(scope, src["text"]))
    except Stop as s:
        return ("error_required",) if s.kind == "undefined" else ("type_error",)


MODES = {
    # mode → (parser, the model's configuration; `deep`: the wrapper of the repo searches the native result through containers)
    "repo": {"text": "strict", "nat": "strict", "check": True, "deep": True},
    "lenient": {"text": "lenient", "nat": "lenient", "check": True, "deep": True},
    "shallow": {"text": "strictShallow", "nat": "strictShallow", "check": True, "deep": True},
}


def cell_worker(args):
    seed, n, mode = args
    mode = {False: "repo", True: "lenient"}.get(mode, mode)
    lenient = mode != "repo"          # (not the repo's own configuration: tie only, no oracle)
    rng = random.Random(seed)
    from rpft.parsers.common.cellparser import CellParser

    cp = {"repo": CellParser, "lenient": lenient_parser, "shallow": shallow_parser}[mode]()
    cases = []
    guard = 0
    while len(cases) < n and guard < n * 5:
        guard += 1
        r0 = rng.random()
        if mode == "repo" and r0 < 0.12:
            new = gen_cexpr_cases(rng)             # (the consumers are modelled under the repo's policy only)
        else:
            new = gen_expr_cases(rng) if rng.random() < (0.12 if mode != "shallow" else 0.6) else [gen_case(rng)]
        for c in new:
            if c is None:
                continue
            exp = expected(c)
            if exp[0] == "value" and isinstance(exp[1], str) and literal_like(exp[1]):
                continue        # NativeEnvironment literal_eval()s string results: outside the fragment
            c["exp"] = exp
            cases.append(c)
    return check_cases(cp, cases, mode)


FLAGS = ("names", "used", "off")


def check_cases(cp, cases, mode):
    """B (model = real) and C (the statement) on a list of generated cell cases"""
    lenient = mode != "repo"
    drv = core.Driver()
    cf = MODES[mode]
    model = drv.results([{"op": "template.render", "cf": cf, "ctx": ctx_j(c["ctx"]), "value": c["value"], "ast": c["ast"], "fn": c["fn"]} for c in cases])
    stats, ties, viol, keys, known = {}, [], [], [], []
    sample = None

    def bump(k, v=1):
        stats[k] = stats.get(k, 0) + v

    for c, m in zip(cases, model):
        if "__error__" in m:
            raise core.Infra(f"driver refused a generated case: {m} :: {c['value']!r}")
        mm = {k: v for k, v in m.items() if k != "path" and k not in FLAGS}
        exp = c["exp"]
        lab = c["labels"]
        tag = "" if mode == "repo" else mode + "."
        if "cexpr" in lab:
            if m.get("off"):
                raise core.Infra(f"generator self-check: a consumer case left the model's fragment: {c['value']!r}")
            if "natC" in c["ast"] and isinstance(mm.get("value"), str) and literal_like(mm["value"]):
                bump("cexpr.skipped_native_literal_like")
                continue        # NativeEnvironment literal_eval()s string results ('1' → 1): outside the fragment
            if m.get("names") != (exp[0] == "error_required"):
                raise core.Infra(f"generator self-check: Lean `NamesUndef` and the oracle's reading differ: {c['value']!r} {m}")
            x = lab["cexpr"]
            for kx in ("twin", "form", "top"):
                bump(f"cexpr.{kx}.{x[kx]}")
            bump(f"cexpr.depth.{x['depth']}")
            verdict = "error" if "error" in mm else ("SILENT(names∧¬used)" if m["names"] else "delivered")
            bump(f"cexpr.{x['twin']}.{verdict}")
            if m["names"] and ("error" in mm) != bool(m["used"]):
                raise core.Infra(f"model self-check: UsedUndef and the model's verdict differ: {c['value']!r} {m}")
        real, facts = run_real(cp, c)
        bump(f"{tag}cases")
        if "expr" in lab:
            x = lab["expr"]
            for kx in ("twin", "form", "hole_in"):
                bump(f"{tag}expr.{kx}.{x[kx]}")
            bump(f"{tag}expr.depth.{x['depth']}")
            bump(f"{tag}expr.{x['twin']}.{'error' if 'error' in mm else next(iter(mm))}")
        bump(f"{tag}kind.{lab['kind']}")
        bump(f"{tag}ctx.{lab['ctx']}")
        bump(f"{tag}fn.{c['fn']}")
        bump(f"{tag}inject.{lab['inject']}")
        if "where" in lab:
            bump(f"{tag}where.{lab['where']}")
        if "use" in lab:
            bump(f"{tag}use.{lab['use']}")
        bump(f"{tag}expect.{exp[0]}")
        bump(f"{tag}model.{'error.' + mm['error'] if 'error' in mm else next(iter(mm))}")
        keys.append(json.dumps([c["value"], ctx_j(c["ctx"]), c["fn"], mode], ensure_ascii=False, sort_keys=True))
        rep = {"value": c["value"], "context": c["ctx"], "fn": c["fn"], "labels": lab, "real": {**facts, "res": safe_repr(facts["res"])[:200]}}
        if real != mm:
            ties.append({**rep, "model": m, "real_canonical": real, "environments": mode})
        if lenient:
            continue
        if sample is None and exp[0] == "error_required":
            sample = {"value": c["value"], "context": c["ctx"], "real": real}
        # ---- C: the statement itself
        delivered = facts["res"]
        reported = bool(facts["crit"]) or facts["exc"] is not None
        if exp[0] == "stripped":
            want = exp[1] if c["fn"] == "pas" else cp.split_into_lists(exp[1])
            if reported or delivered != want:
                viol.append({"what": "context None (omitted templating): the cell was not returned stripped and unevaluated", **rep, "expected": want})
        elif exp[0] == "error_required":
            if not reported and "cexpr" in lab and m.get("names") and not m.get("used") and not m.get("off") and real == mm:
                # F-C16-d, attributed by the LEAN predicate: trigger = NamesUndef ∧ ¬UsedUndef (every undefined object is
                # counted / dropped / selected away), pattern = what is delivered is exactly what the model delivers
                known.append({"value": c["value"], "context": c["ctx"], "fn": c["fn"], "delivered": safe_repr(delivered)[:120], "lean": {k: m[k] for k in FLAGS}})
                bump("known_F-C16-d_generated")
            elif not reported:
                viol.append({"what": "a reached reference is undefined in the context but no CRITICAL record / exception was produced; delivered: " + safe_repr(delivered)[:120], **rep})
            elif delivered is not None and facts["exc"] is None:
                viol.append({"what": "undefined reference reported, but a text/value was delivered all the same: " + safe_repr(delivered)[:120], **rep})
        elif exp[0] == "text":
            want = exp[1] if c["fn"] == "pas" else cp.split_into_lists(exp[1])
            if reported:
                viol.append({"what": "every reached reference is defined, yet an error was reported", **rep, "expected": want})
            elif delivered != want:
                viol.append({"what": "defined references were not replaced by exactly their values", **rep, "expected": want})
        elif exp[0] == "value":
            if reported:
                viol.append({"what": "native template over a defined reference reported an error", **rep})
            elif delivered != exp[1] or type(delivered) is not type(exp[1]):
                viol.append({"what": "native template did not return exactly the value", **rep, "expected": repr(exp[1])})
        elif exp[0] == "nested":
            if not reported:
                viol.append({"what": "two native templates in one cell accepted silently", **rep})
        elif exp[0] == "type_error":
            if not reported:
                viol.append({"what": "|escape on a non-string delivered something silently", **rep})
    return {"stats": stats, "ties": ties[:10], "nties": len(ties), "viol": viol[:10], "nviol": len(viol), "keys": keys, "sample": sample, "known": known[:3], "nknown": len(known)}


# ------------------------------------------------------------------ end to end: every cell of a sheet

CTX_NAME = "cellvalue"


def inject_text(rng, original, style):
    if style == "replace":
        return "{{nope}}"
    if style == "append":
        return original + "{{ nmae }}"
    if style == "native":
        return "{@ nope @}"
    if style == "attr":
        return "{{" + CTX_NAME + ".nope}}"
    if style == "for":
        return original + "{% for q in missing %}x{% endfor %}"
    if style == "if":
        return "{% if nope == 'a' %}" + original + "{% endif %}"
    if style == "escape":
        return "{{nope|escape}}"
    # literal braces (not delimiters) around the reference: before it, after it, JSON-like text, before a block tag
    if style == "brace_before":
        return "Reply {yes} or {no}, {{ nope }}"
    if style == "brace_after":
        return original + "{{ nope }} {ok}"
    if style == "json_like":
        return '{"user": "{{ nope }}", "n": {"k": 1}}'
    if style == "brace_before_block":
        return "Set {a, b}: {% if nope == 'a' %}x{% endif %}"
    raise AssertionError(style)


STYLES = ["replace", "append", "native", "attr", "for", "if", "escape",
          "brace_before", "brace_after", "json_like", "brace_before_block"]
# ({@ … @} is a template only when it is the WHOLE cell: text before it makes it literal text — no style for that)


def canon_doc(doc):
    return rename_uuids_by_first_occurrence(doc)[0]


def sheet_cells(rows, headers):
    for i, r in enumerate(rows):
        for h in headers:
            yield i, h, r.get(h, "")


BASE_SUGAR = [
    {"row_id": "s1", "type": "send_message", "from": "start", "message_text": "hello"},
    {"row_id": "L1", "type": "begin_for", "from": "s1", "message_text": "a;b", "loop_variable": "v;i"},
    {"row_id": "s2", "type": "send_message", "from": "", "message_text": "item", "include_if": "TRUE"},
    {"row_id": "", "type": "end_for"},
    {"row_id": "B1", "type": "begin_block", "from": "L1", "include_if": "TRUE"},
    {"row_id": "w1", "type": "wait_for_response", "from": "", "no_response": "60"},
    {"row_id": "s3", "type": "send_message", "from": "w1", "condition": "yes", "message_text": "you said yes", "choices": "A;B"},
    {"row_id": "", "type": "end_block"},
    {"row_id": "s4", "type": "send_message", "from": "B1", "message_text": "bye", "image": "http://x/i.png"},
]


def e2e_worker(args):
    seed, n_sheets, budget = args
    rng = random.Random(seed)
    stats, viol, keys = {}, [], []
    sample = None
    cli_pool = []

    def bump(k, v=1):
        stats[k] = stats.get(k, 0) + v

    for si in range(n_sheets):
        rows = copy.deepcopy(BASE_SUGAR) if si == 0 else G.gen_core_sheet(rng, rng.randint(3, 7))
        base = compile_flow_sheet(G.HEADERS, rows)
        if not base.ok:
            bump("e2e.base_rejected")
            continue
        bump("e2e.base_sheets")
        base_doc = canon_doc(base.doc)
        cells = list(sheet_cells(rows, G.HEADERS))
        rng.shuffle(cells)
        # every non-blank cell, and a sample of the blank ones
        chosen = [c for c in cells if c[2] != ""] + [c for c in cells if c[2] == ""][: max(6, budget // 4)]
        for (i, h, orig) in chosen[:budget]:
            # the trigger of F-C16-b (a single row whose own include_if is false) does not occur:
            # base sheets only carry blank / TRUE include_if
            # control: the cell written as a template over a defined name ≡ the literal sheet
            # (the `type` cell selects the row model's header mapping from the RAW cell — it cannot
            # be a template at all: KeyError, loudly; no control there)
            ctl = copy.deepcopy(rows)
            if h != "type":
                ctl[i][h] = "{{" + CTX_NAME + "}}"
            rc = compile_flow_sheet(G.HEADERS, ctl, context={CTX_NAME: orig, "unrelated": "u"})
            bump("e2e.control")
            keys.append(f"ctl|{seed}|{si}|{i}|{h}")
            if not rc.ok or canon_doc(rc.doc) != base_doc:
                viol.append({"what": "control: a cell written as {{name}} with the name defined does not compile to the same flow as the literal cell",
                             "rows": ctl, "context": {CTX_NAME: orig}, "cell": [i, h], "errors": [rc.exc, rc.errors[:2]]})
            # control 2: literal braces in front of / behind a reference to a DEFINED name are kept, the reference is
            # replaced (text cells of message rows; the literal twin holds the same text written out)
            if h == "message_text" and rows[i].get("type") == "send_message" and "{" not in orig and rng.random() < 0.5:
                pre, post = rng.choice([("{a} ", ""), ("{\"k\": \"", "\"}"), ("", " {b}"), ("x{ ", " }y")])
                lit2, tpl2 = copy.deepcopy(rows), copy.deepcopy(rows)
                lit2[i][h] = pre + orig + post
                tpl2[i][h] = pre + "{{" + CTX_NAME + "}}" + post
                rl = compile_flow_sheet(G.HEADERS, lit2, context={"unrelated": "u"})
                if rl.ok:
                    rt = compile_flow_sheet(G.HEADERS, tpl2, context={CTX_NAME: orig, "unrelated": "u"})
                    bump("e2e.control.literal_braces_around_reference")
                    keys.append(f"ctl2|{seed}|{si}|{i}|{h}|{pre}")
                    if not rt.ok or canon_doc(rt.doc) != canon_doc(rl.doc):
                        viol.append({"what": "control: literal braces around a reference to a defined name — the cell does not compile to the flow of the same text written out",
                                     "rows": tpl2, "context": {CTX_NAME: orig}, "cell": [i, h], "literal_cell": lit2[i][h], "errors": [rt.exc, rt.errors[:2]],
                                     "csv": rows_to_csv(G.HEADERS, tpl2)})
                else:
                    bump("e2e.control.literal_braces_twin_rejected")
            # injected: ONE missing name in this cell
            style = rng.choice(STYLES)
            bad = copy.deepcopy(rows)
            bad[i][h] = inject_text(rng, orig, style)
            with_ctx = rng.random() < 0.7
            ctx = {CTX_NAME: orig, "unrelated": "u"} if with_ctx else None
            rb = compile_flow_sheet(G.HEADERS, bad, context=ctx)
            bump("e2e.injected")
            bump(f"e2e.column.{h}")
            bump(f"e2e.style.{style}")
            bump("e2e.ctx." + ("given" if with_ctx else "absent"))
            keys.append(f"inj|{seed}|{si}|{i}|{h}|{style}|{with_ctx}")
            if rb.ok:
                viol.append({"what": f"a cell ({h}) names an undefined variable but the sheet compiles without any error record",
                             "rows": bad, "context": ctx, "cell": [i, h], "csv": rows_to_csv(G.HEADERS, bad)})
            elif not any("undefined" in m or "has no attribute" in m for m in rb.errors):
                bump("e2e.injected_rejected_other_message")
            if sample is None:
                sample = {"cell": [i, h], "injected": bad[i][h], "errors": rb.errors[:1]}
            if len(cli_pool) < 3 and rng.random() < 0.2:
                cli_pool.append({"rows": bad, "control": ctl, "ctx": {CTX_NAME: orig, "unrelated": "u"}, "cell": [i, h]})
    return {"stats": stats, "viol": viol[:10], "nviol": len(viol), "keys": keys, "sample": sample, "cli": cli_pool}


# ------------------------------------------------------------------ end to end: sugar, blocks, indexes (deterministic families)

IH = ["type", "sheet_name", "data_sheet", "data_row_id", "new_name", "template_arguments", "status"]


def wb(main_rows, index_rows, data_rows=None, data_headers=("ID", "word", "amount"), extra=None):
    sheets = {"content_index": rows_to_csv(IH, index_rows), "main": rows_to_csv(G.HEADERS, main_rows)}
    if data_rows is not None:
        sheets["data"] = rows_to_csv(list(data_headers), data_rows)
    sheets.update(extra or {})
    return sheets


def messages(doc, flow=None):
    out = []
    for f in doc["flows"]:
        if flow and f["name"] != flow:
            continue
        for n in f["nodes"]:
            for a in n.get("actions", []):
                if a.get("type") == "send_msg":
                    out.append(a["text"])
    return out


def family_cases():
    """(name, kind, builder) — kind: 'error' (must be rejected), 'ok' (must compile; expected messages)"""
    cases = []
    data = [{"ID": "row1", "word": "alpha", "amount": "3"}, {"ID": "row2", "word": "beta", "amount": "4"}]
    idx_data = {"type": "data_sheet", "sheet_name": "data"}

    def flow_rows(text, **extra):
        r = {"row_id": "m1", "type": "send_message", "from": "start", "message_text": text}
        r.update(extra)
        return [r]

    # data-sheet column
    for text, kind, exp in (("W {{word}}", "ok", ["W alpha"]), ("W {{wrod}}", "error", None), ("W {{colour}}", "error", None),
                            ("W {{word.nope}}", "error", None), ("W {{Word}}", "error", None)):
        cases.append((f"data_column[{text}]", kind, wb(flow_rows(text), [idx_data, {"type": "create_flow", "sheet_name": "main", "data_sheet": "data", "data_row_id": "row1"}], data), exp))
    # bulk creation: one flow per data row
    cases.append(("bulk[defined]", "ok", wb(flow_rows("W {{word}} {{amount}}"), [idx_data, {"type": "create_flow", "sheet_name": "main", "data_sheet": "data"}], data), ["W alpha 3", "W beta 4"]))
    cases.append(("bulk[column absent]", "error", wb(flow_rows("W {{word}} {{amuont}}"), [idx_data, {"type": "create_flow", "sheet_name": "main", "data_sheet": "data"}], data), None))
    # template arguments
    tdef = {"type": "template_definition", "sheet_name": "main", "template_arguments": "extra;;dflt|second"}
    for text, args, kind, exp in (
        ("A {{extra}} {{second}}", "E1;S2", "ok", ["A E1 S2"]),
        ("A {{extra}} {{second}}", ";S2", "ok", ["A dflt S2"]),
        ("A {{extar}} {{second}}", "E1;S2", "error", None),
        ("A {{extra}} {{third}}", "E1;S2", "error", None),          # argument not declared
        ("A {{extra.nope}}", "E1;S2", "error", None),
    ):
        cases.append((f"template_argument[{text}|{args}]", kind, wb(flow_rows(text), [tdef, {"type": "create_flow", "sheet_name": "main", "template_arguments": args}]), exp))
    # argument not declared at all (no template_definition): the name is simply unknown
    cases.append(("argument_not_declared", "error", wb(flow_rows("A {{extra}}"), [{"type": "create_flow", "sheet_name": "main", "template_arguments": "E1"}]), None))
    # no data at all: empty context, a reference is still an error; text without braces is literal
    cases.append(("empty_context[{{nope}}]", "error", wb(flow_rows("Hi {{nope}}"), [{"type": "create_flow", "sheet_name": "main"}]), None))
    cases.append(("empty_context[literal]", "ok", wb(flow_rows("Hi nope"), [{"type": "create_flow", "sheet_name": "main"}]), ["Hi nope"]))
    # loops
    loop = lambda lst, body, after=None, **kw: [
        {"row_id": "f", "type": "send_message", "from": "start", "message_text": "first"},
        {"row_id": "L", "type": "begin_for", "from": "f", "message_text": lst, "loop_variable": kw.get("lv", "v")},
        {"row_id": "b", "type": "send_message", "from": "", "message_text": body},
        {"row_id": "", "type": "end_for"},
    ] + ([{"row_id": "a", "type": "send_message", "from": "L", "message_text": after}] if after is not None else [])
    icf = [idx_data, {"type": "create_flow", "sheet_name": "main", "data_sheet": "data", "data_row_id": "row1"}]
    cases.append(("loop[defined]", "ok", wb(loop("x;y", "it {{v}} {{word}}", "after {{word}}"), icf, data), ["first", "it x alpha", "it y alpha", "after alpha"]))
    cases.append(("loop[index]", "ok", wb(loop("x;y", "it {{v}} {{i}}", None, lv="v;i"), icf, data), ["first", "it x 0", "it y 1"]))
    cases.append(("loop[variable after end_for]", "error", wb(loop("x;y", "it {{v}}", "after {{v}}"), icf, data), None))
    cases.append(("loop[variable after end_for, cell text identical to the loop body's]", "error", wb(loop("x;y", "it {{v}}", "it {{v}}"), icf, data), None))
    cases.append(("loop[index after end_for]", "error", wb(loop("x;y", "it {{v}}", "after {{i}}", lv="v;i"), icf, data), None))
    cases.append(("loop[list undefined, text]", "error", wb(loop("{{nope}}", "it {{v}}"), icf, data), None))
    cases.append(("loop[list undefined, native]", "error", wb(loop("{@ nope @}", "it {{v}}"), icf, data), None))
    cases.append(("loop[body misspelt variable]", "error", wb(loop("x;y", "it {{vv}}"), icf, data), None))
    cases.append(("loop[undeclared index]", "error", wb(loop("x;y", "it {{i}}"), icf, data), None))
    # unevaluated: loop over nothing, excluded blocks (contents may name anything)
    cases.append(("empty_loop[body unevaluated]", "ok", wb(loop("{@ [] @}", "it {{nope}} {{v.x}}", "after"), icf, data), ["first", "after"]))
    blk = lambda inc, inner, typ="block", zfrom="B": [
        {"row_id": "s", "type": "send_message", "from": "start", "message_text": "first"},
        {"row_id": "B", "type": f"begin_{typ}", "from": "s", "include_if": inc, "message_text": "p;q" if typ == "for" else "", "loop_variable": "v" if typ == "for" else ""},
    ] + inner + [{"row_id": "", "type": f"end_{typ}"}, {"row_id": "z", "type": "send_message", "from": zfrom, "message_text": "last"}]
    inner_bad = [{"row_id": "x1", "type": "send_message", "from": "", "message_text": "in {{nope}}", "choices": "{@ nope2 @}", "include_if": "{{nope3}}"},
                 {"row_id": "x2", "type": "begin_for", "from": "x1", "message_text": "{@ nope4 @}", "loop_variable": "q"},
                 {"row_id": "x3", "type": "send_message", "from": "", "message_text": "{{q}} {{nope5.y}}"},
                 {"row_id": "", "type": "end_for"}]
    for inc in ("FALSE", "false", "{{word == 'zzz'}}"):
        cases.append((f"excluded_block[{inc}]", "ok", wb(blk(inc, inner_bad, zfrom="s"), icf, data), ["first", "last"]))
        cases.append((f"excluded_loop[{inc}]", "ok", wb(blk(inc, inner_bad, "for", zfrom="s"), icf, data), ["first", "last"]))
    cases.append(("included_block[undefined inside]", "error", wb(blk("TRUE", inner_bad), icf, data), None))
    cases.append(("included_block[include_if undefined]", "error", wb(blk("{{nope}}", [{"row_id": "x1", "type": "send_message", "from": "", "message_text": "in"}]), icf, data), None))
    cases.append(("block[defined]", "ok", wb(blk("{{word == 'alpha'}}", [{"row_id": "x1", "type": "send_message", "from": "", "message_text": "in {{word}}"}]), icf, data), ["first", "in alpha", "last"]))
    # single rows: include_if true / undefined flag
    one = lambda inc, text: [{"row_id": "s", "type": "send_message", "from": "start", "message_text": "first"},
                             {"row_id": "r", "type": "send_message", "from": "s", "message_text": text, "include_if": inc},
                             {"row_id": "z", "type": "send_message", "from": "s", "message_text": "last"}]
    cases.append(("row[include_if undefined]", "error", wb(one("{{nope}}", "x"), icf, data), None))
    cases.append(("row[include_if true, undefined text]", "error", wb(one("TRUE", "x {{nope}}"), icf, data), None))
    cases.append(("row[include_if false, defined text]", "ok", wb(one("FALSE", "x {{word}}"), icf, data), ["first", "last"]))
    # an include_if template that renders to NOTHING is a blank include_if cell: the row is part of the flow, so its
    # other cells are evaluated like any row's
    datab = [dict(r, blank="") for r in data]
    hb = ("ID", "word", "amount", "blank")
    for inc in ("{{blank}}", "{{ blank }}", "{% if amount == 'never' %}FALSE{% endif %}"):
        cases.append((f"row[include_if {inc} renders empty, undefined text]", "error", wb(one(inc, "x {{nope}}"), icf, datab, data_headers=hb), None))
        cases.append((f"row[include_if {inc} renders empty, defined text]", "ok", wb(one(inc, "x {{word}}"), icf, datab, data_headers=hb), ["first", "x alpha", "last"]))
    # insert_as_block: arguments and data row of the inserted template
    tmpl = [{"row_id": "t1", "type": "send_message", "from": "start", "message_text": "T {{word}} {{extra}}"}]
    def ins(tmpl_rows, args="E1", tdef_args="extra;;dflt|"):
        main = [{"row_id": "m1", "type": "send_message", "from": "start", "message_text": "main"},
                {"row_id": "m2", "type": "insert_as_block", "from": "m1", "message_text": "tmpl", "data_sheet": "data", "data_row_id": "row2", "template_arguments": args}]
        return wb(main, [idx_data, {"type": "template_definition", "sheet_name": "tmpl", "template_arguments": tdef_args}, {"type": "create_flow", "sheet_name": "main"}], data,
                  extra={"tmpl": rows_to_csv(G.HEADERS, tmpl_rows)})
    cases.append(("insert_as_block[defined]", "ok", ins(tmpl), ["main", "T beta E1"]))
    cases.append(("insert_as_block[column absent]", "error", ins([dict(tmpl[0], message_text="T {{wrod}} {{extra}}")]), None))
    cases.append(("insert_as_block[argument misspelt]", "error", ins([dict(tmpl[0], message_text="T {{word}} {{exrta}}")]), None))
    cases.append(("insert_as_block[outer flow's names not visible]", "error", ins([dict(tmpl[0], message_text="T {{word}} {{outer}}")]), None))
    # two templates in one run: what one template's arguments (a `sheet` argument: the rows of a data sheet; an ordinary
    # argument) define is defined for THAT template only, whatever was instantiated before
    words = [{"ID": "w1", "word": "apple", "amount": "1"}, {"ID": "w2", "word": "pear", "amount": "2"}]
    ta = [{"row_id": "a1", "type": "send_message", "from": "start", "message_text": "A {{ wordlist|length }} {{ tone }}"}]
    cf_a = {"type": "create_flow", "sheet_name": "ta", "template_arguments": "data;loud"}
    td_a = {"type": "template_definition", "sheet_name": "ta", "template_arguments": "wordlist;sheet;|tone;;soft"}
    for label, cell in (("text", "B {{ wordlist|length }}"), ("statement", "B {% for w in wordlist %}x{% endfor %}"), ("native", "{@ wordlist @}"),
                        ("ordinary argument", "B {{ tone }}")):
        tb = [{"row_id": "b1", "type": "send_message", "from": "start", "message_text": "B start"},
              {"row_id": "b2", "type": "send_message", "from": "b1", "message_text": cell if label != "native" else "B", "choices": cell if label == "native" else ""}]
        cf_b = {"type": "create_flow", "sheet_name": "tb"}
        extra = {"ta": rows_to_csv(G.HEADERS, ta), "tb": rows_to_csv(G.HEADERS, tb)}
        for order, idx in (("after", [idx_data, td_a, cf_a, cf_b]), ("before", [idx_data, td_a, cf_b, cf_a]), ("alone", [idx_data, cf_b])):
            sheets = {"content_index": rows_to_csv(IH, idx), "data": rows_to_csv(["ID", "word", "amount"], words)}
            sheets.update(extra)
            cases.append((f"two_templates[{label}: the other template's argument, {order} it]", "error", sheets, None))
    sheets = {"content_index": rows_to_csv(IH, [idx_data, td_a, cf_a]), "data": rows_to_csv(["ID", "word", "amount"], words), "ta": rows_to_csv(G.HEADERS, ta)}
    cases.append(("two_templates[control: the declaring template alone]", "ok", sheets, ["A 2 loud"]))
    return cases


F_C16_B_ROWS = [
    {"row_id": "s", "type": "send_message", "from": "start", "message_text": "first"},
    {"row_id": "r", "type": "send_message", "from": "s", "message_text": "dropped {{nope}}", "include_if": "FALSE"},
    {"row_id": "z", "type": "send_message", "from": "s", "message_text": "last"},
]


def known_findings_stream(ck):
    """deterministic: each open finding is regenerated; the KNOWN line appears iff trigger AND
    discrepancy pattern AND counterfactual hold"""
    from rpft.parsers.common.cellparser import CellParser

    # F-C16-b: a single row with false include_if is templated before being skipped
    ctx = {"word": "alpha"}
    r_bad = compile_flow_sheet(G.HEADERS, F_C16_B_ROWS, context=ctx)
    good = copy.deepcopy(F_C16_B_ROWS)
    good[1]["message_text"] = "dropped {{word}}"
    r_good = compile_flow_sheet(G.HEADERS, good, context=ctx)
    without = [F_C16_B_ROWS[0], F_C16_B_ROWS[2]]
    r_wo = compile_flow_sheet(G.HEADERS, without, context=ctx)
    ck.case("F-C16-b stream", nontrivial=True)
    if r_good.ok and r_wo.ok and canon_doc(r_good.doc) == canon_doc(r_wo.doc):
        if not r_bad.ok and any("undefined" in m for m in r_bad.errors):
            ck.known("F-C16-b", "a single row whose own include_if is false is templated before it is dropped: an undefined name in it is an error although the row is not part of the flow",
                     {"rows": F_C16_B_ROWS, "errors": r_bad.errors[:1]})
        elif r_bad.ok and canon_doc(r_bad.doc) != canon_doc(r_wo.doc):
            ck.violation("a row with false include_if and an undefined name changes the flow", {"rows": F_C16_B_ROWS})
    else:
        ck.violation("a row with false include_if is not simply dropped", {"rows": good, "errors": [r_good.exc, r_good.errors[:2]]})

    # F-C16-d: the undefined object is stored in a container and then DROPPED or only COUNTED — nothing ever prints,
    # compares, iterates or returns it (what is left of F-C16-c after its fix)
    cp = CellParser()
    ctx = {"a": "A", "row": {"name": "N"}}
    seen, fixed_forms = [], 0
    for cell, twin, want in F_C16_D_FORMS:
        res, reported, exc = run_cell(cp, cell, ctx)
        res2, reported2, _ = run_cell(cp, twin, ctx)
        ck.case("F-C16-d " + cell, nontrivial=True)
        if reported2 or res2 != want:
            ck.violation("container consumed by a filter / test / loop: the DEFINED twin is not delivered exactly",
                         {"value": twin, "context": ctx, "fn": "pas", "delivered": safe_repr(res2), "expected": want})
        if reported:
            fixed_forms += 1
        elif contains_undefined(res) or (isinstance(res, str) and "Undefined" in res):
            ck.violation("an undefined name stored in a container is DELIVERED as an `Undefined` object / the word 'Undefined' without any error: " + safe_repr(res)[:80],
                         {"value": cell, "context": ctx, "fn": "pas", "delivered": safe_repr(res)})
        else:
            seen.append({"cell": cell, "delivered": safe_repr(res)})
    if seen:
        _, ok_plain, _ = run_cell(cp, "{{ nope }}", ctx)
        _, ok_nested, _ = run_cell(cp, "{{ [nope] }}", ctx)
        if ok_plain and ok_nested:
            ck.known("F-C16-d", "an undefined name stored in a container literal whose undefined object is then only tested, looped over without using the element "
                     "or assigned — `{% if [nope] %}`, `{% for x in [nope] %}` without using x, `{% set x = [nope] %}` (statements: outside the Lean model) — is delivered without any error",
                     seen[0])
            ck.count("known_F-C16-d_forms", len(seen))
    ck.count("F-C16-d_forms_now_reported", fixed_forms)


# (cell with the undefined name, the same cell over a defined name, what the defined twin must deliver)
# (only the shapes OUTSIDE the model: statements.  `|length`, `|first`, `|last`, `[i]`, `|join` over containers are
# generated and attributed through the Lean predicate `NamesUndef ∧ ¬UsedUndef` — see `gen_cexpr_cases`)
F_C16_D_FORMS = [
    ("{% if [nope] %}y{% endif %}", "{% if [a] %}y{% endif %}", "y"),
    ("{% for x in [nope] %}y{% endfor %}", "{% for x in [a] %}y{% endfor %}", "y"),
    ("{% set x = [nope] %}ok", "{% set x = [a] %}ok", "ok"),
]


def run_cell(cp, cell, ctx, fn="pas"):
    """→ (delivered, a problem was reported (CRITICAL record or exception), exception text)"""
    from rpft.parsers.common.cellparser import CellParser

    exc, res = None, None
    with LogCapture() as cap:
        try:
            res = cp.parse(cell, copy.deepcopy(ctx)) if fn == "parse" else cp.parse_as_string(cell, copy.deepcopy(ctx), CellParser.BooleanWrapper())
        except Exception as e:  # noqa: BLE001
            exc = f"{type(e).__name__}: {e}"
    return res, bool(cap.criticals()) or exc is not None, exc


# ------------------------------------------------------------------ containers outside the model's fragment (direct oracle only)
# shapes with ONE hole: an undefined name in the hole must be reported; a defined name / a `default`-protected
# undefined name must deliver exactly `want(value of the hole)`.  The hole stands in an element / dict value /
# dict KEY / dict(k=…) argument of a container that a filter, a loop, `+`, `~` or an index then USES.

CONTAINER_SHAPES = [
    ("{{ [%s]|join(',') }}", lambda h: h),
    ("{{ [a, %s]|join('-') }}", lambda h: "A-" + h),
    ("{{ (a, %s)|join }}", lambda h: "A" + h),
    ("{{ [%s]|first }}", lambda h: h),
    ("{{ [a, %s]|last }}", lambda h: h),
    ("{@ [%s]|list @}", lambda h: [h]),
    ("{@ [a, [%s]]|list @}", lambda h: ["A", [h]]),
    ("{{ [%s]|string }}", lambda h: repr([h])),
    ("{{ [[%s]]|first }}", lambda h: repr([h])),
    ("{{ [%s][0] }}", lambda h: h),
    ("{{ dict(k=%s).k }}", lambda h: h),
    ("{{ {'k': [%s]}['k'] }}", lambda h: repr([h])),
    ("{{ dict(k=%s)|string }}", lambda h: repr({"k": h})),
    ("{{ [%s] + [a] }}", lambda h: repr([h, "A"])),
    ("{@ [a] + [%s] @}", lambda h: ["A", h]),
    ("{@ (%s, a) + (a,) @}", lambda h: (h, "A", "A")),
    ("{{ a ~ (%s,) ~ a }}", lambda h: "A" + repr((h,)) + "A"),
    ("{{ [a, {'k': (%s,)}]|string ~ a }}", lambda h: repr(["A", {"k": (h,)}]) + "A"),
    ("{% for x in [a, %s] %}<{{ x }}>{% endfor %}", lambda h: "<A><" + h + ">"),
    ("{% for x in [[%s]] %}{{ x }}{% endfor %}", lambda h: repr([h])),
    ("{% for k, v in {'k': %s}.items() %}{{ k }}={{ v }}{% endfor %}", lambda h: "k=" + h),
    ("{% set x = [%s] %}ok{{ x }}", lambda h: "ok" + repr([h])),
    ("{{ {%s: 'v'} }}", lambda h: repr({h: "v"})),            # as a dict KEY
    ("{@ {%s: a} @}", lambda h: {h: "A"}),
    ("{@ {'k': {%s: [a]}} @}", lambda h: {"k": {h: ["A"]}}),
    ("{@ [%s, a]|reverse|list @}", lambda h: ["A", h]),
    ("{{ [%s]|map('upper')|list }}", lambda h: repr([h.upper()])),
    ("{{ [%s]|sort }}", lambda h: repr([h])),
]


def container_stream(ck):
    from rpft.parsers.common.cellparser import CellParser

    rng = ck.rng
    cp = CellParser()
    reps = 2 if ck.tier == "quick" else 12
    for shape, want in CONTAINER_SHAPES:
        for _ in range(reps):
            word = rng.choice(["beta", "b c", "Zed", "x1"])
            ctx = {"a": "A", "b": word, "row": {"name": word, "n": "7"}, "xs": [word, "q"]}
            undefined = rng.choice(["nope", "nmae", "row.nope", "row['nmae']", "xs[5]", "B", "nope.x"])
            defined, val = rng.choice([("b", word), ("row.name", word), ("row['n']", "7"), ("xs[0]", word), ("xs[1]", "q")])
            dflt = rng.choice(["d", "none given", "zz"])
            fn = rng.choice(["pas", "parse"])
            native = shape.startswith("{@")
            for twin, hole, hv in (("undefined", undefined, None), ("defined", defined, val), ("default", rng.choice(["nope", "nmae"]) + f"|default('{dflt}')", dflt)):
                cell = shape.replace("%s", hole)
                res, reported, exc = run_cell(cp, cell, ctx, fn)
                ck.case(json.dumps(["container", cell, word, fn]), nontrivial=True)
                ck.count(f"container.{twin}")
                ck.count("container.shapes." + ("native" if native else "text"))
                rp = {"value": cell, "context": ctx, "fn": fn, "twin": twin, "delivered": safe_repr(res)[:200]}
                if twin == "undefined":
                    if not reported:
                        ck.violation("an undefined name stored in a container that is then used (filter / loop / + / ~ / index / dict key) is not reported; delivered: " + safe_repr(res)[:100], rp)
                    continue
                w = want(hv)
                if fn == "parse" and not native:
                    w = cp.split_into_lists(w)
                if reported:
                    ck.violation(f"container expression over a {'defined name' if twin == 'defined' else 'default-protected name'}: an error is reported", {**rp, "expected": safe_repr(w), "exc": exc})
                elif res != w or type(res) is not type(w):
                    ck.violation(f"container expression over a {'defined name' if twin == 'defined' else 'default-protected name'}: not exactly the value", {**rp, "expected": safe_repr(w)})


def eval_filter_stream(ck):
    """the `eval` filter evaluates a string of the data as an expression over the cell's variables: a name
    that expression refers to and the context lacks is an undefined reference like any other (direct
    oracle on the real CellParser, text and native templates; defined names give exactly their value)"""
    from rpft.parsers.common.cellparser import CellParser

    rng = ck.rng
    cp = CellParser()
    names = ["vip", "tier", "age", "row"]
    n = 0
    for _ in range(60 if ck.tier == "quick" else 600):
        ctx = {"vip": rng.choice(["yes", "no", ""]), "tier": rng.choice(["gold", "A|B", "é"]), "age": rng.randint(0, 9),
               "row": {"name": rng.choice(["Ann", "Bo"]), "n": rng.randint(0, 3)}}
        missing = rng.choice([None, None] + names)
        if missing:
            del ctx[missing]
        expr_name = rng.choice(names)
        # (Python expressions: the filter is Python's eval over the cell's variables)
        expr = rng.choice([expr_name, expr_name, f" {expr_name} ", "row['name']" if expr_name == "row" else expr_name,
                           "row['n']" if expr_name == "row" else expr_name])
        ctx["rule"] = {"expr": expr}
        for cell, native in (("{{ rule.expr|eval }}", False), ("{@ rule.expr|eval @}", True), ("T: {{ rule['expr']|eval }}!", False)):
            n += 1
            with LogCapture() as cap:
                try:
                    res = cp.parse_as_string(cell, ctx, CellParser.BooleanWrapper())
                    exc = None
                except Exception as e:  # noqa: BLE001
                    res, exc = None, repr(e)
            reported = bool(cap.criticals()) or exc is not None
            defined = expr_name in ctx
            ck.case(json.dumps([cell, expr, sorted(ctx)], default=str), nontrivial=True)
            ck.count("eval_filter." + ("defined" if defined else "undefined"))
            if not defined and not reported:
                ck.violation("an expression evaluated by the `eval` filter names an undefined variable, yet nothing is reported: delivered " + repr(res)[:80],
                             {"cell": cell, "context": ctx, "expression": expr, "undefined_name": expr_name, "delivered": repr(res)})
            elif defined and not reported:
                want = eval(expr, {}, dict(ctx))          # the documented meaning: the expression over the cell's variables
                ok = (res == want) if native else (res == cell.replace("{{ rule.expr|eval }}", str(want)).replace("{{ rule['expr']|eval }}", str(want)))
                if not ok:
                    ck.violation("the `eval` filter does not deliver the value of the expression", {"cell": cell, "context": ctx, "expression": expr, "delivered": repr(res), "expected": repr(want)})
            elif defined and reported:
                ck.violation("the `eval` filter reports an error although every name of the expression is defined",
                             {"cell": cell, "context": ctx, "expression": expr, "errors": cap.criticals()[:1], "exc": exc})
    ck.evaluations += 0
    return n


# ------------------------------------------------------------------ end to end: ONE template instantiated SEVERAL times in one run
# Instantiations are independent: what a run delivers for an instantiation (or that it is
# rejected) must be what a FRESH run of that instantiation alone delivers.  In particular a name
# that only an EARLIER instantiation of the same template defined (a column of another data sheet,
# a data row where the next has none, a loop variable) is undefined for a LATER one.

M_POOL = ["name", "city", "kind", "amount", "colour"]
M_ARGS = ["arg1", "arg2"]
M_LV = "lv"
M_SCENARIOS = ["two_sheets", "sheet_then_none", "bulk_then_single", "args", "insert_twice_same_flow", "insert_two_flows", "loop", "mixed"]
TNAME = "tmpl"


def messages_by_flow(doc):
    out = {}
    for f in doc["flows"]:
        out[f["name"]] = [a["text"] for n in f["nodes"] for a in n.get("actions", []) if a.get("type") == "send_msg"]
    return out


def m_template(rng, refs, loop, tail_lv):
    """rows of the template + description for the by-construction oracle.
    desc: ("msg", k, [names]) | ("loop", [items], [("msg", k, [names])])"""
    rows, desc = [], []
    k = 0
    prev = "start"

    def text(k, names):
        return f"m{k}" + "".join(" " + n + "=" + rng.choice(["{{%s}}", "{{ %s }}", "{{%s|escape}}"]) % n for n in names)

    def some(names):
        names = [n for n in names if rng.random() < 0.7] or list(names[:1])
        return names

    n_rows = rng.randint(1, 2)
    for _ in range(n_rows):
        names = some(refs)
        rows.append({"row_id": f"r{k}", "type": "send_message", "from": prev, "message_text": text(k, names)})
        desc.append(("msg", k, names))
        prev = f"r{k}"
        k += 1
    if loop:
        items = ["p", "q"][: rng.randint(1, 2)]
        if rng.random() < 0.3:
            items = items[:1] + [""]       # the LAST element is blank: an element all the same, and gone after end_for like any other
        names = some(refs) + [M_LV]
        rows.append({"row_id": "L", "type": "begin_for", "from": prev,
                     "message_text": ";".join(items) + (";" if len(items) == 1 or items[-1] == "" else ""), "loop_variable": M_LV})
        body_text = text(k, names)
        rows.append({"row_id": f"r{k}", "type": "send_message", "from": "", "message_text": body_text})
        rows.append({"row_id": "", "type": "end_for"})
        desc.append(("loop", items, [("msg", k, names)]))
        prev = "L"
        if rng.random() < 0.4:
            # the row after the loop repeats the loop body's cell text character for character
            # (what a cell is replaced by depends on the context, never on an earlier rendering)
            rows.append({"row_id": f"r{k}x", "type": "send_message", "from": prev, "message_text": body_text})
            desc.append(("msg", k, names))
            k += 1
        else:
            k += 1
            names = some(refs) + ([M_LV] if tail_lv else [])
            rows.append({"row_id": f"r{k}", "type": "send_message", "from": prev, "message_text": text(k, names)})
            desc.append(("msg", k, names))
    return rows, desc


def m_expect(desc, ctx):
    """messages of one instantiation, or None when a delivered row names something undefined
    (sheet-level scoping: the loop variable is gone after end_for, an outer variable of that name is back)"""
    ctx = dict(ctx)
    out = []

    def msg(k, names):
        if any(n not in ctx for n in names):
            raise KeyError
        out.append(f"m{k}" + "".join(f" {n}={ctx[n]}" for n in names))

    try:
        for item in desc:
            if item[0] == "msg":
                msg(item[1], item[2])
            else:
                outer = ctx.get(M_LV)
                for e in item[1]:
                    ctx[M_LV] = e
                    for b in item[2]:
                        msg(b[1], b[2])
                ctx.pop(M_LV, None)
                if outer is not None:
                    ctx[M_LV] = outer      # an outer variable of the same name is visible again
    except KeyError:
        return None
    return out


def gen_multi(rng):
    kind = rng.choice(M_SCENARIOS)
    pivot = rng.choice(M_POOL)
    use_args = kind == "args" or rng.random() < 0.4
    loop = kind == "loop" or (kind == "mixed" and rng.random() < 0.3)
    tail_lv = loop and rng.random() < 0.25
    refs = [n for n in M_POOL if n != pivot and rng.random() < 0.4]
    only_args = kind in ("sheet_then_none", "args") and rng.random() < 0.4
    if only_args:
        refs = []
        use_args = True
    elif rng.random() < 0.85:
        refs.append(pivot)
    if use_args:
        refs += [a for a in M_ARGS if rng.random() < 0.7] or ["arg1"]
    if not refs:
        refs = [pivot]
    rng.shuffle(refs)
    trows, desc = m_template(rng, refs, loop, tail_lv)
    # data sheets: `sa` has every referenced column; `sb` lacks the pivot (or, as control, has it too)
    pool_refs = [n for n in refs if n in M_POOL]
    cols_a = sorted(set(pool_refs) | {n for n in M_POOL if rng.random() < 0.3} | {pivot})
    b_lacks = rng.random() < 0.7
    cols_b = [c for c in cols_a if c != pivot or not b_lacks]
    if rng.random() < 0.3:
        cols_b = [c for c in cols_b if rng.random() < 0.8]
    if tail_lv and rng.random() < 0.5:
        cols_a = cols_a + [M_LV]        # a data column named like the loop variable
    sheets_cols = {"sa": cols_a, "sb": cols_b}
    if kind == "mixed" and rng.random() < 0.5:
        sheets_cols["sc"] = [c for c in M_POOL if rng.random() < 0.5]
    data = {}
    for sn, cols in sheets_cols.items():
        data[sn] = [dict({"ID": f"{sn}{i}"}, **{c: f"{sn}{i}{c}" for c in cols}) for i in range(rng.randint(1, 2))]

    def args():
        r = rng.random()
        return "" if r < 0.3 else (rng.choice(["A1", "X"]) if r < 0.6 else rng.choice([";B2", "A1;B2", "Y;Z"]))

    def inst(t, sn=None):
        sn = sn or rng.choice(sorted(data))
        if t == "bulk":
            return {"t": "bulk", "sheet": sn, "args": args()}
        if t == "single":
            return {"t": "single", "sheet": sn, "row": rng.choice(data[sn])["ID"], "args": args()}
        if t == "nodata":
            return {"t": "nodata", "args": args()}
        raise AssertionError(t)

    def ins(sn=None):
        sn = sn or rng.choice(sorted(data))
        return {"sheet": sn, "row": rng.choice(data[sn])["ID"], "args": args()}

    if kind in ("two_sheets", "loop"):
        insts = [inst("bulk", "sa"), inst("bulk", "sb")]
    elif kind == "sheet_then_none":
        insts = [inst(rng.choice(["bulk", "single"]), "sa"), inst("nodata")]
    elif kind == "bulk_then_single":
        insts = [inst("bulk", "sa"), inst("single", "sb")]
    elif kind == "args":
        insts = [inst("nodata"), inst("nodata"), inst("single", "sa")]
    elif kind == "insert_twice_same_flow":
        insts = [{"t": "insert", "ins": [ins("sa"), ins("sb")] + ([ins()] if rng.random() < 0.3 else [])}]
    elif kind == "insert_two_flows":
        insts = [{"t": "insert", "ins": [ins("sa")]}, {"t": "insert", "ins": [ins("sb")]}]
        if rng.random() < 0.4:
            insts.append(inst("bulk", "sb"))
    else:
        insts = []
        for _ in range(rng.randint(3, 4)):
            t = rng.choice(["bulk", "single", "nodata", "insert"])
            insts.append({"t": "insert", "ins": [ins() for _ in range(rng.randint(1, 2))]} if t == "insert" else inst(t))
    for k, i in enumerate(insts):
        i["k"] = k
    return {"kind": kind, "template": trows, "desc": desc, "data": data, "cols": sheets_cols, "insts": insts, "pivot": pivot, "refs": refs}


ARG_DEFAULTS = {"arg1": "d1", "arg2": "d2"}


def m_ctx(sc, sheet, row, args):
    ctx = {}
    if sheet:
        ctx.update(next(r for r in sc["data"][sheet] if r["ID"] == row))
    vals = (args.split(";") + ["", ""])[:2]
    for a, v in zip(M_ARGS, vals):
        ctx[a] = v or ARG_DEFAULTS[a]
    return ctx


def m_expected_flows(sc, i):
    """{flow name: messages | None} that instantiation i is to deliver"""
    d = sc["desc"]
    k = i["k"]
    if i["t"] == "bulk":
        return {f"f{k} - {r['ID']}": m_expect(d, m_ctx(sc, i["sheet"], r["ID"], i["args"])) for r in sc["data"][i["sheet"]]}
    if i["t"] == "single":
        return {f"f{k} - {i['row']}": m_expect(d, m_ctx(sc, i["sheet"], i["row"], i["args"]))}
    if i["t"] == "nodata":
        return {f"f{k}": m_expect(d, m_ctx(sc, None, None, i["args"]))}
    parts = [m_expect(d, m_ctx(sc, x["sheet"], x["row"], x["args"])) for x in i["ins"]]
    return {f"main{k}": None if any(p is None for p in parts) else [f"main{k}"] + [m for p in parts for m in p]}


def m_workbook(sc, insts):
    idx = [{"type": "data_sheet", "sheet_name": sn} for sn in sorted(sc["data"])]
    idx.append({"type": "template_definition", "sheet_name": TNAME, "template_arguments": "arg1;;d1|arg2;;d2"})
    sheets = {TNAME: rows_to_csv(G.HEADERS, sc["template"])}
    for sn, rows in sc["data"].items():
        sheets[sn] = rows_to_csv(["ID"] + sc["cols"][sn], rows)
    for i in insts:
        k = i["k"]
        if i["t"] == "insert":
            main = [{"row_id": "m0", "type": "send_message", "from": "start", "message_text": f"main{k}"}]
            prev = "m0"
            for j, x in enumerate(i["ins"]):
                main.append({"row_id": f"i{j}", "type": "insert_as_block", "from": prev, "message_text": TNAME, "data_sheet": x["sheet"],
                             "data_row_id": x["row"], "template_arguments": x["args"]})
                prev = f"i{j}"
            sheets[f"main{k}"] = rows_to_csv(G.HEADERS, main)
            idx.append({"type": "create_flow", "sheet_name": f"main{k}"})
        else:
            idx.append({"type": "create_flow", "sheet_name": TNAME, "data_sheet": i.get("sheet", ""), "data_row_id": i.get("row", ""),
                        "new_name": f"f{k}", "template_arguments": i["args"]})
    sheets["content_index"] = rows_to_csv(IH, idx)
    return sheets


def m_reverse(insts):
    out = []
    for i in reversed(insts):
        i = dict(i)
        if i["t"] == "insert":
            i["ins"] = list(reversed(i["ins"]))
        out.append(i)
    return out


def m_names(sc, i):
    """names each instantiation step defines, in order (for the stale-prone stratum)"""
    steps = i["ins"] if i["t"] == "insert" else [i]
    return [set(m_ctx(sc, x.get("sheet"), x.get("row") or (sc["data"][x["sheet"]][0]["ID"] if x.get("sheet") else None), x["args"])) for x in steps]


def multi_check(sc):
    """→ (violations, stats, cli candidates) for one scenario, both orders"""
    viol, stats, cli = [], {}, []

    def bump(k, v=1):
        stats[k] = stats.get(k, 0) + v

    bump("multi.scenarios")
    bump("multi.kind." + sc["kind"])
    # each instantiation alone, in a fresh run
    solo_ok = {}
    for i in sc["insts"]:
        exp = m_expected_flows(sc, i)
        wbk = m_workbook(sc, [i])
        r = compile_index(wbk)
        should = all(v is not None for v in exp.values())
        solo_ok[i["k"]] = should
        bump("multi.solo_" + ("ok" if should else "rejected"))
        if r.ok != should:
            viol.append({"what": ("one instantiation alone: a delivered row names an undefined variable but the run is accepted" if r.ok else
                                  "one instantiation alone: everything referenced is defined but the run is rejected"),
                         "sheets": wbk, "instantiation": i, "errors": [r.exc, r.errors[:2]], "expected": exp})
        elif r.ok and messages_by_flow(r.doc) != exp:
            viol.append({"what": "one instantiation alone: messages are not exactly the substituted values", "sheets": wbk, "instantiation": i,
                         "got": messages_by_flow(r.doc), "expected": exp})
    for order, insts in (("as_listed", sc["insts"]), ("reversed", m_reverse(sc["insts"]))):
        exp = {}
        for i in insts:
            exp.update(m_expected_flows(sc, i))
        should = all(v is not None for v in exp.values())
        # stale-prone: a referenced name defined by an earlier step and not by a later one
        seq = [s for i in insts for s in m_names(sc, i)]
        refs = set(sc["refs"]) | ({M_LV} if any(M_LV in (it[2] if it[0] == "msg" else []) for it in sc["desc"]) else set())
        prone = any((seq[a] - seq[b]) & refs for a in range(len(seq)) for b in range(a + 1, len(seq)))
        bump("multi.combined_runs")
        bump("multi.stale_prone", prone)
        wbk = m_workbook(sc, insts)
        r = compile_index(wbk)
        bump("multi.combined_" + ("accepted" if r.ok else "rejected"))
        rep = {"sheets": wbk, "scenario": sc["kind"], "order": order, "instantiations": insts, "template_refs": sc["refs"]}
        if r.ok and not should:
            got = messages_by_flow(r.doc)
            bad = {n: got.get(n) for n, v in exp.items() if v is None}
            fresh = [i for i in insts if not solo_ok[i["k"]]]
            viol.append({"what": "one template instantiated several times in one run: an instantiation that is rejected in a fresh run on its own (it names a variable its "
                                 "context does not define) is accepted after an earlier instantiation of the same template, and delivers " + json.dumps(bad, ensure_ascii=False)[:300],
                         **rep, "delivered_for_undefined": bad, "rejected_alone": fresh})
        elif not r.ok and should:
            viol.append({"what": "one template instantiated several times: every instantiation is accepted alone but the combined run is rejected", **rep,
                         "errors": [r.exc, r.errors[:2]]})
        elif r.ok and messages_by_flow(r.doc) != exp:
            viol.append({"what": "one template instantiated several times: delivered messages are not exactly each instantiation's own values", **rep,
                         "got": messages_by_flow(r.doc), "expected": exp})
        if prone and not should and solo_ok.get(insts[0]["k"]) and len(cli) < 1:
            cli.append(("multi-instantiation, later one undefined (" + sc["kind"] + ", " + order + ")", "error", wbk))
        elif should and prone is False and len(insts) > 1 and not cli:
            cli.append(("multi-instantiation, all defined (" + sc["kind"] + ")", "ok", wbk))
    return viol, stats, cli


DEMO_MULTI = {
    "kind": "two_sheets", "pivot": "city", "refs": ["name", "city"],
    "template": [{"row_id": "", "type": "send_message", "from": "start", "message_text": "m0 name={{name}} city={{city}}"}],
    "desc": [("msg", 0, ["name", "city"])],
    "data": {"sa": [{"ID": "ann", "name": "Ann", "city": "Nairobi"}, {"ID": "bob", "name": "Bob", "city": "Kampala"}], "sb": [{"ID": "louvre", "name": "Louvre"}]},
    "cols": {"sa": ["name", "city"], "sb": ["name"]},
    "insts": [{"t": "bulk", "sheet": "sa", "args": "", "k": 0}, {"t": "bulk", "sheet": "sb", "args": "", "k": 1}],
}


def multi_worker(args):
    seed, n = args
    rng = random.Random(seed)
    stats, viol, keys, cli = {}, [], [], []
    for j in range(n):
        sc = copy.deepcopy(DEMO_MULTI) if (seed == 0 and j == 0) else gen_multi(rng)
        v, st, c = multi_check(sc)
        for k, x in st.items():
            stats[k] = stats.get(k, 0) + int(x)
        viol += v
        cli += c
        keys.append(json.dumps([sc["template"], sc["data"], sc["insts"]], sort_keys=True))
    return {"stats": stats, "viol": sorted(viol, key=lambda x: len(json.dumps(x, default=str)))[:6], "nviol": len(viol), "keys": keys, "cli": cli[:6]}


# ------------------------------------------------------------------ CLI


def run_cli(sheets: dict[str, str], scratch: str, tag: str):
    d = os.path.join(scratch, tag)
    os.makedirs(os.path.join(d, "in"))
    for n, t in sheets.items():
        with open(os.path.join(d, "in", n + ".csv"), "w", encoding="utf-8", newline="") as f:
            f.write(t)
    env = dict(os.environ)
    p = subprocess.run([PY, "-m", "rpft.cli", "create_flows", "-f", "csv", "-o", "out.json", "in"], cwd=d, env=env,
                       stdout=subprocess.PIPE, stderr=subprocess.STDOUT, text=True, timeout=300)
    out = os.path.join(d, "out.json")
    doc = None
    if os.path.exists(out):
        try:
            doc = json.load(open(out))
        except Exception:  # noqa: BLE001
            doc = "unreadable"
    return p.returncode, doc, p.stdout[-600:]


def cli_job(job):
    name, kind, sheets, exp, scratch, tag = job
    rc, doc, log = run_cli(sheets, scratch, tag)
    return name, kind, exp, rc, doc, log, sheets


def sheet_as_workbook(rows, ctx):
    """a flow sheet + context as a CSV workbook for the CLI: the context becomes a data row"""
    keys = list(ctx)
    data = rows_to_csv(["ID"] + keys, [dict({"ID": "row1"}, **ctx)])
    idx = [{"type": "data_sheet", "sheet_name": "data"}, {"type": "create_flow", "sheet_name": "main", "data_sheet": "data", "data_row_id": "row1"}]
    return {"content_index": rows_to_csv(IH, idx), "main": rows_to_csv(G.HEADERS, rows), "data": data}


# ------------------------------------------------------------------ run


def fold_cell(ck, results):
    for r in results:
        for k, v in r["stats"].items():
            ck.count(k, v)
        for key in r["keys"]:
            ck.case(key, nontrivial=True)
        for t in r["ties"]:
            ck.tie_break("template.render: model and real CellParser differ", t)
        if r["nties"] > len(r["ties"]):
            ck.count("tie_break", r["nties"] - len(r["ties"]))
        for v in r["viol"]:
            ck.violation(v["what"], v)
        if r.get("known"):
            ck.known("F-C16-d", "an expression names an undefined variable but every `Undefined` object is only counted, dropped or selected away "
                     "(Lean: NamesUndef ∧ ¬UsedUndef; delivered = what the model delivers): no error", r["known"][0])
        if r.get("sample") and len(ck.samples) < 3:
            ck.samples.append(r["sample"])


def run(ck: core.Check):
    ck.lean = core.lean_step("C16", thorough=(ck.tier == "thorough"))
    if not core.DRIVER_BIN.exists():
        raise core.Infra("driver not built:\n" + ck.lean.log[-2000:])
    import rpft.parsers.common.cellparser  # noqa: F401
    _vet()
    quick = ck.tier == "quick"
    ck.rule = (
        "cell level: random contexts (nested records/lists/strings, empty, None) × templates of the model's fragment printed in Jinja "
        "syntax (literals incl. separators/braces/unicode, {{p}}, {{p|escape}}, {% for %}, {% if == %}, {@ p @}, two natives), half of "
        "them — plus, 12 %: container expressions (list/tuple/dict/dict() literals nested 1–4 deep, the hole an element or a dict value at the innermost level, "
        "printed / concatenated left or right / returned natively) in three twins: hole = an undefined reference (7 ways of being missing), a defined one, "
        "a `|default`-protected missing name; 12 %: the same skeletons (nesting 1–3) with CONSUMERS wrapped around their container levels — |length, |first, |last, [i], |join('sep'), "
        "stacked up to two high, also on the other operand of `~` — in the same three twins, plus 20 fixed shapes (the F-C16-d forms and their USED counterparts): whether the undefined hole is used "
        "(error required AND found) or only counted / selected away (F-C16-d) is the Lean predicate `UsedUndef`; 28 hand-written container shapes outside the model (filters, loops, +, ~, index, dict key) × random names × the same three twins — half of "
        "them with ONE reference broken in one of 10 ways (misspelt root/field, missing attribute, field of a sibling record, index out of "
        "range, attribute of a string/list, step past an undefined, integer index on a record, case changed, loop variable outside its "
        "loop) placed at top level / inside a loop body / inside a true if / inside a false if / inside a loop over nothing, random "
        "padding, parse and parse_as_string; end to end: every non-blank cell (and sampled blank ones) of generated core sheets and of a "
        "sugared sheet with one injected undefined name in 7 syntactic styles + a defined control; fixed workbook families; random content "
        "indexes instantiating ONE template 2–4 times (8 scenario kinds, both orders) compared with a fresh run of each instantiation alone; distinct = "
        "distinct (cell text, context, entry point) / distinct (sheet, cell, style)"
    )
    ck.assumptions = [
        "Jinja2 parses the printed fragment as the structure it was printed from (the driver re-prints the structure and compares it with the stripped cell; evaluation is compared on every case)",
        "NativeEnvironment literal_eval()s string results ('12' → 12): string values that are Python literals are kept out of native cases",
        "repr() of strings inside containers: generators use quote/backslash-free strings there (consumer cases whose joined text with quotes would be re-printed inside a container are discarded by the generator's own oracle)",
    ]
    ck.partial_gap = [
        "delivered_no_blank over whole sheets (no instantiated cell of a delivered row contains an undefined reference) is checked on the real compiler for every cell of the explored sheets, not proved: there is no Lean model of the templated row/sheet parser; the cell-level theorems are proved for all templates and contexts of the fragment",
        "Jinja expressions outside the fragment (filters other than escape / default, arithmetic, tests, set, comprehensions; dict literals with a repeated key; consumers that make an undefined object of their own: first/last of an empty sequence, an index out of range or into a dict) are not modelled — containers used by other filters / loops / + are checked by the direct oracle only (container stream). |length, |first, |last, [i], |join over containers ARE modelled (`CExpr`): F-C16-d's trigger on them is the Lean predicate NamesUndef ∧ ¬UsedUndef; `{% if e %}` / `{% for %}` / `{% set %}` over a container stay with the hand-written known-finding stream (the `Tmpl` type has no statement over an expression)",
        "`UsedUndef` is defined on the value the expression evaluates to (evaluation failed on an undefined object, or the value handed to the printer / the caller still holds one); render_error_iff_used ties BOTH uses (print walk, native search) to it; structural laws for every consumer applied directly to a literal are proved (used_len/coll/first_cons/last_coll/index_coll/join_coll/…_dict, consumer_used_mono); the exact law for a consumer applied to another consumer's result (`selecting_composes_full`) — i.e. a closed syntactic recursion — is not proved",
    ]

    # ---- B + C at the cell level
    n_cases = 6000 if quick else 60000
    shards = par.NPROC * (1 if quick else 4)
    jobs = [(ck.rng.randrange(1 << 60), n_cases // shards, "repo") for _ in range(shards)]
    n_len = 1600 if quick else 12000
    jobs += [(ck.rng.randrange(1 << 60), n_len // par.NPROC, "lenient") for _ in range(par.NPROC)]
    jobs += [(ck.rng.randrange(1 << 60), n_len // par.NPROC, "shallow") for _ in range(par.NPROC)]
    fold_cell(ck, par.pmap(cell_worker, jobs))

    # the shapes of F-C16-d inside the model (and their USED counterparts), every run: same tie, same oracle,
    # attribution by the Lean predicate only
    from rpft.parsers.common.cellparser import CellParser
    fx = fixed_cexpr_cases()
    for c in fx:
        c["exp"] = expected(c)
    fold_cell(ck, [check_cases(CellParser(), fx, "repo")])

    # kernel-checked witnesses of Props/C16.lean replayed on the real code
    cp, lp, sp = CellParser(), lenient_parser(), shallow_parser()
    wit = [
        ("needs_deep_strict (plain StrictUndefined prints the stored object)", sp, "{{ [nope] }}", {"a": "A"}, "[Undefined]"),
        ("needs_deep_strict (concatenation)", sp, "{{ a ~ {'k': nope} }}", {"a": "A"}, "A{'k': Undefined}"),
        ("needs_deep_strict (un-nested is an error)", sp, "{{ nope }}", {"a": "A"}, None),
        ("nested undefined is an error", cp, "{{ [a, {'k': (nope,)}] }}", {"a": "A"}, None),
        ("default-protected twin", cp, "{{ [a, {'k': (nope|default('d'),)}] }}", {"a": "A"}, "['A', {'k': ('d',)}]"),
        ("defined twin, concatenated", cp, "{{ a ~ dict(k=a) }}", {"a": "A"}, "A{'k': 'A'}"),
        ("needs_deep_check (repo half)", cp, "{@ [nope] @}", {"a": "A"}, None),
        ("lenient_blank", lp, "Hi {{nmae}}!", {"name": "N"}, "Hi !"),
        ("strict_not_blank", cp, "Hi {{nmae}}!", {"name": "N"}, None),
        ("loop variable gone after the loop", cp, "{% for v in xs %}{{v}}{% endfor %}{{v}}", {"xs": ["a"]}, None),
        ("outer variable visible again", cp, "{% for v in xs %}{{v}}{% endfor %}{{v}}", {"xs": ["a"], "v": "OUT"}, "aOUT"),
        ("needs_usable", cp, "{{xs|escape}}", {"xs": []}, None),
        ("defined_exact example", cp, "x {{a|escape}} y", {"a": "A;B"}, "x A\\;B y"),
    ]
    for name, p, cell, ctx, want in wit:
        with LogCapture() as cap:
            got = p.parse_as_string(cell, ctx)
        ck.case("witness " + name, nontrivial=True)
        ok = (got == want and not cap.criticals()) if want is not None else bool(cap.criticals())
        if not ok:
            ck.tie_break(f"Lean witness `{name}` does not replay on the real code", {"cell": cell, "context": ctx, "got": repr(got), "criticals": cap.criticals()[:1]})

    # ---- known findings (deterministic)
    known_findings_stream(ck)
    container_stream(ck)
    eval_filter_stream(ck)

    # ---- end to end: every cell
    n_sheets = 2 if quick else 5
    budget = 60 if quick else 200
    ejobs = [(ck.rng.randrange(1 << 60) if k else 1, n_sheets, budget) for k in range(par.NPROC)]
    cli_pool = []
    for r in par.pmap(e2e_worker, ejobs):
        for k, v in r["stats"].items():
            ck.count(k, v)
        for key in r["keys"]:
            ck.case(key, nontrivial=True)
        for v in r["viol"]:
            ck.violation(v["what"], v)
        if r["sample"] and len(ck.samples) < 5:
            ck.samples.append(r["sample"])
        cli_pool += r["cli"]

    # ---- one template instantiated several times in one run (independence of instantiations)
    n_multi = 320 if quick else 4000
    mjobs = [(0 if k == 0 else ck.rng.randrange(1 << 60), n_multi // par.NPROC) for k in range(par.NPROC)]
    multi_cli = []
    for r in par.pmap(multi_worker, mjobs):
        for k, v in r["stats"].items():
            ck.count(k, v)
        for key in r["keys"]:
            ck.case(key, nontrivial=True)
        for v in r["viol"]:
            ck.violation(v["what"], v)
        multi_cli += r["cli"]
    multi_cli = [c for c in multi_cli if c[1] == "error"][: (5 if quick else 16)] + [c for c in multi_cli if c[1] == "ok"][: (2 if quick else 6)]

    # ---- fixed families (library), then the CLI on all of them + a sample of the injected sheets
    fam = family_cases()
    scratch = tempfile.mkdtemp(prefix="c16_")
    try:
        cli_jobs = [(name, kind, sheets, None, scratch, f"multi{k}") for k, (name, kind, sheets) in enumerate(multi_cli)]
        for k, (name, kind, sheets, exp) in enumerate(fam):
            r = compile_index(sheets)
            ck.case("family " + name, nontrivial=True)
            ck.count("family." + kind)
            if kind == "error" and r.ok:
                ck.violation(f"{name}: a delivered row names an undefined variable but the workbook compiles without error; messages: {messages(r.doc)}",
                             {"family": name, "sheets": sheets})
            elif kind == "ok":
                if not r.ok:
                    ck.violation(f"{name}: everything referenced is defined (or lies in an excluded block / empty loop) but the workbook is rejected",
                                 {"family": name, "sheets": sheets, "errors": [r.exc, r.errors[:2]]})
                elif messages(r.doc) != exp:
                    ck.violation(f"{name}: messages are not exactly the substituted values", {"family": name, "sheets": sheets, "got": messages(r.doc), "expected": exp})
            cli_jobs.append((name, kind, sheets, exp, scratch, f"fam{k}"))
        ck.rng.shuffle(cli_pool)
        for k, c in enumerate(cli_pool[: (6 if quick else 24)]):
            cli_jobs.append((f"injected cell {c['cell']}", "error", sheet_as_workbook(c["rows"], c["ctx"]), None, scratch, f"inj{k}"))
            cli_jobs.append((f"control cell {c['cell']}", "ok", sheet_as_workbook(c["control"], c["ctx"]), None, scratch, f"ctl{k}"))
        if quick:
            # the CLI costs ~1.5 s per run: all error families, a few ok ones
            cli_jobs = [j for j in cli_jobs if j[1] == "error"][:33] + [j for j in cli_jobs if j[1] == "ok"][:12]
        from concurrent.futures import ThreadPoolExecutor
        with ThreadPoolExecutor(par.NPROC) as ex:
            for name, kind, exp, rc, doc, log, sheets in ex.map(cli_job, cli_jobs):
                ck.case("cli " + name, nontrivial=True)
                ck.count("cli." + kind)
                if kind == "error":
                    if rc == 0 or doc is not None:
                        ck.violation(f"CLI: {name}: create_flows exit status {rc}, output file {'written' if doc is not None else 'absent'} although a delivered row names an undefined variable",
                                     {"family": name, "sheets": sheets, "log_tail": log})
                else:
                    if rc != 0 or not isinstance(doc, dict):
                        ck.violation(f"CLI: {name}: everything is defined but create_flows failed (exit {rc})", {"family": name, "sheets": sheets, "log_tail": log})
                    elif exp is not None and messages(doc) != exp:
                        ck.violation(f"CLI: {name}: messages are not exactly the substituted values", {"family": name, "sheets": sheets, "got": messages(doc), "expected": exp})
    finally:
        shutil.rmtree(scratch, ignore_errors=True)

    # ---- obligation broken → search harder with the direct oracle
    if (ck.tie_breaks or not ck.lean.ok) and not ck.violations and quick:
        ck.search_ran = True
        jobs = [(ck.rng.randrange(1 << 60), 2500, "repo") for _ in range(par.NPROC)]
        fold_cell(ck, par.pmap(cell_worker, jobs))
        # the disagreeing inputs and their neighbours: same cell under other contexts / entry point
        for t in [t for t in ck.tie_breaks if t][:20]:
            d = t["detail"]
            if "value" not in d:
                continue
            for ctx in (d.get("context"), {}, {"a": "A"}):
                if ctx is None:
                    continue
                with LogCapture() as cap:
                    try:
                        res = cp.parse_as_string(d["value"], copy.deepcopy(ctx))
                        exc = None
                    except Exception as e:  # noqa: BLE001
                        res, exc = None, repr(e)
                names = set(re.findall(r"[A-Za-z_]\w*", d["value"])) & set(MISSING)
                if names and not cap.criticals() and exc is None and not (isinstance(ctx, dict) and names <= set(ctx)):
                    ck.violation("a cell naming an undefined variable is delivered without error: " + repr(res)[:100], {"value": d["value"], "context": ctx, "fn": "pas"})

    # ---- generator self-check
    need = ["inject.none", "kind.native", "kind.text", "ctx.none", "ctx.empty", "where.unreached_if", "where.unreached_for", "where.in_for",
            "expect.error_required", "expect.text", "expect.value", "expect.stripped", "e2e.injected", "e2e.control", "lenient.cases", "shallow.cases",
            "expr.twin.undefined", "expr.twin.defined", "expr.twin.default", "expr.undefined.error", "expr.default.text", "expr.default.value", "expr.defined.text", "expr.defined.value",
            "expr.form.print", "expr.form.cat_left", "expr.form.cat_right", "expr.form.native", "expr.depth.1", "expr.depth.2", "expr.depth.3",
            "shallow.expr.undefined.text", "lenient.expr.undefined.holds_undefined", "container.undefined", "container.defined", "container.default",
            "multi.stale_prone", "multi.combined_accepted", "multi.combined_rejected", "multi.solo_ok", "multi.solo_rejected"] + [f"multi.kind.{k}" for k in M_SCENARIOS] + [f"inject.{k}" for k in MISSING_KINDS + ["loop_var_outside"]]
    for s in need:
        if ck.strata.get(s, 0) < 3:
            raise core.Infra(f"generator stratum {s} under-represented: {ck.strata.get(s, 0)}")


def replay(path):
    rec = json.load(open(path))
    print(json.dumps(rec, indent=1, ensure_ascii=False, default=str)[:6000])
    rp = rec.get("replay", {})
    from rpft.parsers.common.cellparser import CellParser

    if "value" in rp:
        cp = CellParser()
        with LogCapture() as cap:
            try:
                fn = cp.parse if rp.get("fn") == "parse" else cp.parse_as_string
                res = fn(rp["value"], copy.deepcopy(rp.get("context")))
                print("real code returned:", repr(res))
            except Exception as e:  # noqa: BLE001
                print("real code raised:", repr(e))
        print("CRITICAL records:", cap.criticals())
    elif "rows" in rp:
        r = compile_flow_sheet(G.HEADERS, rp["rows"], context=rp.get("context"))
        print("compiles without error:", r.ok, "| exception:", r.exc, "| errors:", r.errors[:2])
        if r.ok:
            print("messages:", messages(r.doc))
    elif "sheets" in rp:
        r = compile_index(rp["sheets"])
        print("compiles without error:", r.ok, "| exception:", r.exc, "| errors:", r.errors[:2])
        if r.ok:
            print("messages:", messages(r.doc))
    return 0
