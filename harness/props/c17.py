"""C17 — `--strip_uuids` sheets do not depend on the UUIDs in the flow file.

A  proof step: Rpft.Props.C17 (strip_renaming_invariant, stripped_rows_U_free, numbered_ids,
   named_ids_nodup, needs_injective, …) over the polymorphic exporter model Rpft/Export.lean.
B  tie: model `toRows` / `remap` (driver op `export.rows`) vs the real `FlowContainer.to_rows`
   on the same flows: row ids, payload (every exported field that is not an id), `from` of every
   edge, edge order per row, go_to targets — numbered and named.  The model input is built from
   the real loaded container (node uuid, `short_name()`, `get_exit_edge_pairs()`).
C  direct oracle = the statement's own metamorphic test on the REAL `flows_to_sheets
   --strip_uuids` (± `--numbered`): each flow file is exported under the identity and under k
   bijective renamings of ALL its uuids; the written CSV files must be byte-identical; every cell
   is scanned for the flow's uuids and for any UUID-shaped string; numbered ids are 1..n in row
   order, named ids unique.
"""
from __future__ import annotations

import csv
import io
import json
import os
import random
import re
import shutil
import subprocess
import sys
import tempfile
import uuid as _uuid

from .. import core, par
from ..flows import LogCapture, compile_flow_sheet
from ..gen import flowjson as FJ
from ..gen import sheets as G

MANIFEST = dict(
    text="Proof: Lean theorem strip_renaming_invariant (for every flow, every injective renaming of identifiers, both id modes, and every header-order / CSV-export function of uuid-free data, the stripped sheet of the renamed flow equals the stripped sheet of the flow) over a line-by-line model of FlowContainer.to_rows (DFS with visited/completed sets, reverse child order, go_to rows with fresh ids, temp-id remapping) that is polymorphic in the identifier type; stripped_rows_U_free (the output type has no identifier component), toRows_temp_ids_nodup (DFS invariant), numbered_ids (ids are 1..n in row order), named_ids_nodup (unique, never 'start'), toRows_fuel_sufficient / remap_only_key_error (the model's fuels are never exhausted), needs_injective (negative witness, replayed on the real exporter), tables_agree (excluded headers = headers of the uuid-carrying row fields). Tied to the code by a differential run model-vs-real to_rows on generated and compiled flows, and the statement itself is evaluated on the REAL flows_to_sheets --strip_uuids: byte-identical CSV files under random / order-reversing / non-UUID / swapping / permuting / case-respelling (capitals, mixed case) bijective renamings of all uuids, on files with and without _ui positions, no uuid in any cell.",
    ref="§5 C17",
    note="Trusts: Lean kernel (axioms audited each run), the differential harness and Driver JSON codec; action/router content of a row and edge labels are opaque uuid-free strings supplied by the harness from the real objects (their uuid-freeness is checked by the cell scan, not proved); RowParser.unparse_row, networkx.topological_sort and tablib CSV export are uninterpreted functions of the uuid-free rows. WhatsApp template ids are not in the statement's renaming list and are held fixed; since fix F-C17-a (/repo) --strip_uuids excludes the wa_template.uuid column as well.",
    technique="Lean 4 proof (equivariance of the exporter DFS under injective renamings; parametricity of the stripped output) + metamorphic oracle on the real CLI path + model/code correspondence",
)

UUID_ANY = re.compile(r"[0-9a-fA-F]{8}-[0-9a-fA-F]{4}-[0-9a-fA-F]{4}-[0-9a-fA-F]{4}-[0-9a-fA-F]{12}")
ID_KEYS = {"uuid", "exit_uuid", "category_uuid", "default_category_uuid", "destination_uuid"}
TEMPLATE_UUID = "5722e1fd-fe32-4e74-ac78-3cf41a6adb7e"   # WhatsApp template id: held fixed (not in the statement's list)


# ------------------------------------------------------------------ uuids of a flow file and renamings


def collect_uuids(doc) -> list[str]:
    """Every UUID of the statement's list, in document order: flows, nodes, exits, categories, cases,
    actions, templating instances, groups (definitions, action references, has_group arguments),
    referenced flows, plus the keys of `_ui.nodes` / `localization` entries.  WhatsApp *template*
    ids (`templating.template.uuid`) are NOT collected (not in the list)."""
    out: list[str] = []
    seen = set()

    def add(u):
        if isinstance(u, str) and u and u not in seen:
            seen.add(u)
            out.append(u)

    def walk(x, in_template=False):
        if isinstance(x, dict):
            for k, v in x.items():
                if k == "template" and isinstance(v, dict):
                    continue
                if k in ID_KEYS:
                    add(v)
                else:
                    walk(v)
        elif isinstance(x, list):
            for v in x:
                walk(v)

    walk(doc)
    for f in doc.get("flows", []):
        for n in f.get("nodes", []):
            r = n.get("router") or {}
            for c in r.get("cases", []) or []:
                if c.get("type") == "has_group" and c.get("arguments"):
                    add(c["arguments"][0])
        for k in ((f.get("_ui") or {}).get("nodes") or {}):
            add(k)
    return out


def apply_renaming(doc, m: dict):
    """Consistent renaming: every string (value or dict key) that IS one of the uuids is replaced."""
    def ren(x, key=None):
        if isinstance(x, dict):
            out = {}
            for k, v in x.items():
                if k == "template" and isinstance(v, dict) and key == "templating":
                    out[k] = v            # template id held fixed
                else:
                    out[m.get(k, k)] = ren(v, k)
            return out
        if isinstance(x, list):
            return [ren(v, key) for v in x]
        if isinstance(x, str):
            return m.get(x, x)
        return x

    return ren(doc)


def fresh_uuid(rng):
    return str(_uuid.UUID(int=rng.getrandbits(128), version=4))


def doc_text_tokens(doc, ids: set[str]) -> str:
    parts = []

    def walk(x):
        if isinstance(x, dict):
            for k, v in x.items():
                if k not in ids:
                    parts.append(str(k))
                walk(v)
        elif isinstance(x, list):
            for v in x:
                walk(v)
        elif isinstance(x, str):
            if x not in ids:
                parts.append(x)
        elif x is not None:
            parts.append(str(x))

    walk(doc)
    return "\n".join(parts)


def plain_names(doc, ids, style, rng):
    """non-UUID identifiers ("n1", "zz-9", …) that do not occur as a token in the file's own text"""
    text = doc_text_tokens(doc, set(ids))
    for prefix in (["n", "nq", "nqx"] if style == "n" else ["zz-", "zq-", "zzq-"]):
        if not re.search(r"(?<![A-Za-z0-9])" + re.escape(prefix) + r"\d+(?![A-Za-z0-9])", text):
            break
    nums = list(range(1, len(ids) + 1))
    rng.shuffle(nums)
    return [f"{prefix}{k}" for k in nums]


RENAMING_KINDS = ["fresh", "reverse_order", "plain_n", "plain_zz", "swap_two_nodes", "permute", "reverse_fresh", "swap_two_any"]
# other legal SPELLINGS of UUIDs (RFC 4122: hex digits are case-insensitive on input; .NET / PowerShell / Excel
# tooling writes GUIDs in capitals): a renaming is any injective map on identifier strings, so a file whose
# uuids are written in upper / mixed case is a renaming of its lower-case twin.
SPELLING_KINDS = ["upper_same", "fresh_upper", "mixed_same", "fresh_mixed"]
ALL_KINDS = RENAMING_KINDS + SPELLING_KINDS


def respell(u: str, how: str, rng: random.Random) -> str:
    """the same identifier in another letter case: 'upper' = all capitals; 'mixed' = every letter independently
    upper / lower with at least one capital (when there is a letter at all)"""
    if how == "upper":
        return u.upper()
    letters = [i for i, ch in enumerate(u) if ch.isalpha()]
    if not letters:
        return u
    force = rng.choice(letters)
    return "".join(ch.upper() if (i == force or (ch.isalpha() and rng.random() < 0.5)) else ch.lower() for i, ch in enumerate(u))


def make_renaming(kind: str, doc, ids: list[str], rng: random.Random) -> dict:
    """A bijection on the uuids of the file (dict uuid → new name); identity outside."""
    n = len(ids)
    if kind == "fresh":
        new = [fresh_uuid(rng) for _ in ids]
        return dict(zip(ids, new))
    if kind == "reverse_order":            # permutation of the SAME strings that reverses their lexicographic order
        s = sorted(ids)
        return dict(zip(s, s[::-1]))
    if kind == "reverse_fresh":            # fresh uuids whose lexicographic order is the reverse of the originals'
        s = sorted(ids)
        new = sorted({fresh_uuid(rng) for _ in range(n + 8)})[:n]
        return dict(zip(s, new[::-1]))
    if kind in ("plain_n", "plain_zz"):
        return dict(zip(ids, plain_names(doc, ids, "n" if kind == "plain_n" else "zz", rng)))
    if kind == "swap_two_nodes":
        nodes = [nd["uuid"] for f in doc["flows"] for nd in f["nodes"]]
        m = {u: u for u in ids}
        if len(nodes) >= 2:
            a, b = rng.sample(nodes, 2)
            m[a], m[b] = b, a
        elif n >= 2:
            a, b = rng.sample(ids, 2)
            m[a], m[b] = b, a
        return m
    if kind == "swap_two_any":
        m = {u: u for u in ids}
        if n >= 2:
            a, b = rng.sample(ids, 2)
            m[a], m[b] = b, a
        return m
    if kind == "permute":
        p = ids[:]
        rng.shuffle(p)
        return dict(zip(ids, p))
    if kind in ("upper_same", "mixed_same"):      # the SAME uuids, re-spelled in capitals / mixed case
        m = {u: respell(u, "upper" if kind == "upper_same" else "mixed", rng) for u in ids}
        if len(set(m.values())) == n:
            return m
        kind = "fresh_upper" if kind == "upper_same" else "fresh_mixed"   # ids that differ only in case: re-spelling would merge them
    if kind in ("fresh_upper", "fresh_mixed"):    # fresh uuid4s written in capitals / mixed case
        return {u: respell(fresh_uuid(rng), "upper" if kind == "fresh_upper" else "mixed", rng) for u in ids}
    raise ValueError(kind)


def is_bijection(m: dict, ids) -> bool:
    return set(m) == set(ids) and len(set(m.values())) == len(m) and all("|" not in v and v for v in m.values())


# ------------------------------------------------------------------ the real exporter


def export_files(doc, numbered: bool, workdir, strip=True) -> dict:
    """REAL converters.flows_to_sheets on a real file → {file name: bytes}; raises on exporter errors."""
    from rpft import converters

    d = tempfile.mkdtemp(dir=workdir)
    try:
        with open(os.path.join(d, "in.json"), "w", encoding="utf-8") as f:
            json.dump(doc, f)
        out = os.path.join(d, "out")
        os.mkdir(out)
        converters.flows_to_sheets(os.path.join(d, "in.json"), out, "csv", strip, numbered)
        res = {}
        for fn in sorted(os.listdir(out)):
            with open(os.path.join(out, fn), "rb") as f:
                res[fn] = f.read()
        return res
    finally:
        shutil.rmtree(d, ignore_errors=True)


def export_files_cli(doc, numbered: bool, workdir) -> dict:
    """The same through the command line (`rpft flows_to_sheets --strip_uuids [--numbered]`)."""
    d = tempfile.mkdtemp(dir=workdir)
    try:
        with open(os.path.join(d, "in.json"), "w", encoding="utf-8") as f:
            json.dump(doc, f)
        out = os.path.join(d, "out")
        os.mkdir(out)
        cmd = [sys.executable, "-c", "from rpft.cli import main; main()", "flows_to_sheets", "--strip_uuids"]
        if numbered:
            cmd.append("--numbered")
        cmd += ["-f", "csv", os.path.join(d, "in.json"), out]
        p = subprocess.run(cmd, cwd=d, stdout=subprocess.PIPE, stderr=subprocess.PIPE, timeout=300)
        if p.returncode != 0:
            raise RuntimeError(f"cli exit {p.returncode}: {p.stderr.decode(errors='replace')[-300:]}")
        res = {}
        for fn in sorted(os.listdir(out)):
            with open(os.path.join(out, fn), "rb") as f:
                res[fn] = f.read()
        return res
    finally:
        shutil.rmtree(d, ignore_errors=True)


def parse_csv(data: bytes):
    rows = list(csv.reader(io.StringIO(data.decode("utf-8"), newline="")))
    return (rows[0], rows[1:]) if rows else ([], [])


def id_pattern(u: str):
    if UUID_ANY.fullmatch(u):
        return re.compile(re.escape(u), re.I)
    return re.compile(r"(?<![A-Za-z0-9])" + re.escape(u) + r"(?![A-Za-z0-9])")


def scan_cells(files: dict, ids, allow_template=False):
    """(leaks, template_hits): cells containing any UUID-shaped string (this covers every uuid-shaped
    member of `ids`) or one of the plain (non-UUID) identifiers of `ids` as a token."""
    leaks, tmpl = [], []
    plain = [u for u in ids if not UUID_ANY.fullmatch(u)]
    pats = None
    for fn, data in files.items():
        text = data.decode("utf-8")
        if not UUID_ANY.search(text) and not any(u in text for u in plain):   # cheap pre-filter on the whole file
            continue
        if pats is None:
            pats = [(u, id_pattern(u)) for u in plain]
        headers, rows = parse_csv(data)
        for ri, row in enumerate([headers] + rows):
            for ci, cell in enumerate(row):
                col = headers[ci] if ci < len(headers) else f"#{ci}"
                for mm in UUID_ANY.finditer(cell):
                    if allow_template and mm.group(0) == TEMPLATE_UUID and col == "wa_template.uuid":
                        tmpl.append({"file": fn, "row": ri, "column": col, "cell": cell})
                    else:
                        leaks.append({"file": fn, "row": ri, "column": col, "cell": cell[:200], "uuid_shaped": mm.group(0)})
                for u, p in pats:
                    if u in cell and p.search(cell):
                        leaks.append({"file": fn, "row": ri, "column": col, "cell": cell[:200], "identifier": u})
    return leaks, tmpl


def id_checks(files: dict, numbered: bool):
    """numbered: row ids are 1..n in row order; named: unique non-empty names; references resolve."""
    problems = []
    for fn, data in files.items():
        headers, rows = parse_csv(data)
        if not headers:
            continue
        if "row_id" not in headers:
            problems.append({"file": fn, "what": "no row_id column"})
            continue
        k = headers.index("row_id")
        ids = [r[k] for r in rows]
        if numbered:
            if ids != [str(i + 1) for i in range(len(ids))]:
                problems.append({"file": fn, "what": "with --numbered the row ids are not 1..n in row order", "row_ids": ids[:30]})
        else:
            if len(set(ids)) != len(ids):
                dup = sorted({i for i in ids if ids.count(i) > 1})
                problems.append({"file": fn, "what": "row ids are not unique", "duplicates": dup[:5]})
            if any(not i.strip() for i in ids):
                problems.append({"file": fn, "what": "blank row id"})
            if any(i == "start" for i in ids):
                problems.append({"file": fn, "what": "a row is named 'start'"})
        known = set(ids) | {"start"}
        for ci, h in enumerate(headers):
            if re.fullmatch(r"edges\.\d+\.from", h) or h == "from":
                for r in rows:
                    if r[ci] and r[ci] not in known:
                        problems.append({"file": fn, "what": f"'{h}' names a row that does not exist", "value": r[ci]})
                        break
    return problems


# ------------------------------------------------------------------ one case = one flow file


def check_doc(doc, kinds, rng, workdir, allow_template=False, modes=(False, True)):
    """C on one flow file.  Returns dict(fail=None|{...}, stats)."""
    ids = collect_uuids(doc)
    res = {"fail": None, "template_hits": 0, "exports": 0, "rows": 0, "goto": 0}
    renamings = []
    for kind in kinds:
        m = make_renaming(kind, doc, ids, rng)
        if not is_bijection(m, ids):
            raise core.Infra(f"generator bug: renaming {kind} is not a bijection on the file's uuids")
        renamings.append((kind, m))
    for numbered in modes:
        mode = "numbered" if numbered else "named"
        try:
            base = export_files(doc, numbered, workdir)
        except Exception as e:  # noqa: BLE001 — outside the exporter's domain: no sheet, nothing to compare
            res["export_error"] = f"{type(e).__name__}: {e}"[:200]
            return res
        res["exports"] += 1
        leaks, tmpl = scan_cells(base, ids, allow_template)
        res["template_hits"] += len(tmpl)
        if leaks:
            res["fail"] = {"what": "a stripped sheet contains a UUID", "mode": mode, "renaming": "identity", "leak": leaks[0], "leaks": len(leaks)}
            return res
        p = id_checks(base, numbered)
        if p:
            res["fail"] = {"what": p[0]["what"], "mode": mode, "renaming": "identity", "detail": p[0]}
            return res
        for fn, data in base.items():
            _, rows = parse_csv(data)
            res["rows"] += len(rows)
            res["goto"] += sum(1 for r in rows if "go_to" in r)
        for kind, m in renamings:
            doc2 = apply_renaming(doc, m)
            try:
                got = export_files(doc2, numbered, workdir)
            except Exception as e:  # noqa: BLE001
                res["fail"] = {"what": "the renamed flow file cannot be exported although the original can", "mode": mode, "renaming": kind,
                               "mapping": m, "error": f"{type(e).__name__}: {e}"[:300]}
                return res
            res["exports"] += 1
            if got != base:
                fn = next((f for f in sorted(set(base) | set(got)) if base.get(f) != got.get(f)), None)
                res["fail"] = {"what": "stripped sheets differ after a bijective renaming of the uuids", "mode": mode, "renaming": kind, "mapping": m,
                               "file": fn, "original": (base.get(fn) or b"").decode("utf-8", "replace")[:3000],
                               "renamed": (got.get(fn) or b"").decode("utf-8", "replace")[:3000]}
                return res
            leaks, _ = scan_cells(got, list(m.values()), allow_template)
            if leaks:
                res["fail"] = {"what": "a stripped sheet contains a UUID", "mode": mode, "renaming": kind, "mapping": m, "leak": leaks[0]}
                return res
    return res


def shrink_doc(doc, failing):
    """drop nodes (edges into them lead nowhere afterwards) / extra flows while `failing(doc)` stays truthy"""
    cur = doc
    det = failing(cur)
    if not det:
        return cur, det
    while len(cur["flows"]) > 1:
        for i in range(len(cur["flows"])):
            cand = json.loads(json.dumps(cur))
            del cand["flows"][i]
            d = failing(cand)
            if d:
                cur, det = cand, d
                break
        else:
            break
    changed = True
    while changed:
        changed = False
        for fi, f in enumerate(cur["flows"]):
            for i in range(len(f["nodes"]) - 1, 0, -1):
                cand = json.loads(json.dumps(cur))
                cn = cand["flows"][fi]["nodes"]
                victim = cn[i]["uuid"]
                del cn[i]
                for nd in cn:
                    for e in nd["exits"]:
                        if e.get("destination_uuid") == victim:
                            e["destination_uuid"] = None
                ui = (cand["flows"][fi].get("_ui") or {}).get("nodes")
                if ui:
                    ui.pop(victim, None)
                try:
                    d = failing(cand)
                except core.Infra:
                    d = None
                if d:
                    cur, det, changed = cand, d, True
                    break
            if changed:
                break
    return cur, det


# ------------------------------------------------------------------ tie B: model toRows / remap vs real to_rows

_ROW_ID_FIELDS = ("row_id", "edges", "node_uuid", "obj_id", "mainarg_destination_row_ids")


def _label(cond) -> str:
    d = cond.dict()
    return "" if not any(d.values()) else json.dumps(d, sort_keys=True, ensure_ascii=False)


def _payload(row) -> str:
    d = row.dict()
    for k in _ROW_ID_FIELDS:
        d.pop(k, None)
    if d.get("type") == "go_to":
        from rpft.parsers.creation.flowrowmodel import FlowRowModel
        blank = FlowRowModel(type="go_to", edges=[]).dict()
        for k in _ROW_ID_FIELDS:
            blank.pop(k, None)
        if d == blank:
            return "go_to"
    return json.dumps(d, sort_keys=True, ensure_ascii=False)


def model_input(flow):
    """NodeX list of Rpft/Export.lean from the REAL loaded FlowContainer: node uuid, short_name(), the row
    models initiate_row_models creates (content + obj_id), get_exit_edge_pairs() labels and destinations."""
    from rpft.parsers.creation.flowrowmodel import Edge

    nodes = []
    for node in flow.nodes:
        node.clear_row_model()
        node.initiate_row_models("X", Edge(from_="start"))
        rows = [[_payload(r), r.obj_id or None] for r in node.get_row_models()]
        edges = [[_label(edge.condition), ex.destination_uuid or None] for ex, edge in node.get_exit_edge_pairs()]
        nodes.append({"uuid": node.uuid, "short": node.short_name(), "rows": rows, "edges": edges})
    return nodes


def real_rows(flow, numbered):
    rows = flow.to_rows(numbered)
    return {
        "rows": [{"id": r.row_id, "payload": _payload(r), "edges": [[e.from_, _label(e.condition)] for e in r.edges],
                  "goto": list(r.mainarg_destination_row_ids)} for r in rows],
        "node_ids": [r.node_uuid or None for r in rows],
        "obj_ids": [r.obj_id or None for r in rows],
    }


def tie_requests(doc):
    """[(request | None, real answer | error string, flow index, numbered)] for every flow of the file"""
    from rpft.rapidpro.models.containers import RapidProContainer

    out = []
    for fi in range(len(doc["flows"])):
        for numbered in (False, True):
            try:
                real = real_rows(RapidProContainer.from_dict(doc).flows[fi], numbered)
            except Exception as e:  # noqa: BLE001
                real = f"{type(e).__name__}"
            try:
                nodes = model_input(RapidProContainer.from_dict(doc).flows[fi])
                req = {"op": "export.rows", "numbered": numbered, "nodes": nodes}
            except Exception:  # noqa: BLE001 — a node the real objects cannot even describe (short_name / row model raises)
                req = None
            out.append((req, real, fi, numbered))
    return out


def tie_compare(req, real, ans):
    """None if model and code agree, else a description"""
    if isinstance(ans, dict) and "__error__" in ans:
        return {"what": "driver error", "error": ans["__error__"]}
    if isinstance(real, str):
        if "err" in ans:
            return None
        return {"what": "real to_rows raises, model returns rows", "real": real, "model_rows": len(ans.get("rows", []))}
    if "err" in ans:
        return {"what": "model reports an error, real to_rows returns rows", "model": ans["err"], "real_rows": len(real["rows"])}
    if ans == real:
        return None
    for i, (a, b) in enumerate(zip(ans["rows"], real["rows"])):
        if a != b:
            return {"what": "row differs", "index": i, "model": a, "real": b}
    if len(ans["rows"]) != len(real["rows"]):
        return {"what": "number of rows differs", "model": len(ans["rows"]), "real": len(real["rows"])}
    return {"what": "node_uuid / obj_id column differs", "model": [ans["node_ids"], ans["obj_ids"]], "real": [real["node_ids"], real["obj_ids"]]}


def csv_vs_rows(files, doc, numbered):
    """the written CSV carries exactly the ids / from / go_to targets of to_rows (ties the file to the row models)"""
    from rpft.rapidpro.models.containers import RapidProContainer

    last = {f["name"]: fi for fi, f in enumerate(doc["flows"])}
    for fi, f in enumerate(doc["flows"]):
        if last[f["name"]] != fi:
            continue            # flows of one name share one file: the file holds the last of them
        data = files.get(f"{f['name']}.csv")
        if data is None:
            return {"what": "no file for flow", "flow": f["name"]}
        headers, rows = parse_csv(data)
        real = real_rows(RapidProContainer.from_dict(doc).flows[fi], numbered)["rows"]
        if not real and not rows:
            continue
        if len(rows) != len(real):
            return {"what": "CSV row count differs from to_rows", "csv": len(rows), "rows": len(real)}
        col = {h: i for i, h in enumerate(headers)}
        for i, (r, m) in enumerate(zip(rows, real)):
            if r[col["row_id"]] != m["id"]:
                return {"what": "CSV row_id differs from to_rows", "row": i, "csv": r[col["row_id"]], "rows": m["id"]}
            if len(m["edges"]) == 1 and "from" in col:
                froms = [r[col["from"]]]
            else:
                froms = [r[col[f"edges.{k}.from"]] for k in range(1, len(m["edges"]) + 1) if f"edges.{k}.from" in col]
            if froms != [e[0] for e in m["edges"]]:
                return {"what": "CSV from cells differ from to_rows", "row": i, "csv": froms, "rows": m["edges"]}
            if m["goto"] and r[col["message_text"]].rstrip("|") != "|".join(m["goto"]):
                return {"what": "CSV go_to target differs from to_rows", "row": i, "csv": r[col["message_text"]], "rows": m["goto"]}
    return None


# ------------------------------------------------------------------ generators


def compiled_doc(rng):
    rows = G.gen_core_sheet(rng, rng.randint(2, 14), noop=False)
    r = compile_flow_sheet(G.HEADERS, rows)
    return r.doc if r.ok else None


def gen_doc(rng, maxnodes):
    """(source, flow file).  foreign: export-schema flows (trees, joins, cycles, self loops, every node kind,
    special characters, optional _ui positions and localization keyed by uuids, sometimes two flows in one
    file); compiled: output of the real compiler on a random core sheet.  Either kind is sometimes written
    with its uuids in capitals / mixed case (the file's own spelling; the renamings then lead back to
    lower case as well)."""
    src, doc = _gen_doc(rng, maxnodes)
    if doc is not None and rng.random() < 0.15:
        ids = collect_uuids(doc)
        how = rng.choice(["upper_same", "mixed_same"])
        sub = random.Random(rng.randrange(1 << 60))    # own stream: compiled files carry uuid4()s, the number of letters must not steer `rng`
        m = make_renaming(how, doc, ids, sub)
        if is_bijection(m, ids):
            doc = apply_renaming(doc, m)
    return src, doc


def _gen_doc(rng, maxnodes):
    r = rng.random()
    if r < 0.62:
        doc = FJ.gen_container(rng, rng.randint(1, maxnodes), special_text=rng.random() < 0.7, ui=rng.random() < 0.4)
        src = "foreign"
        if rng.random() < 0.2:
            # (sometimes the two flows carry the SAME name — two exports merged into one file: whatever the tool does
            # with their sheets, it must not be decided by their uuids)
            other = FJ.gen_container(rng, rng.randint(1, maxnodes), special_text=rng.random() < 0.7, ui=rng.random() < 0.4,
                                     name=doc["flows"][0]["name"] if rng.random() < 0.4 else "flow_b")
            doc["flows"].append(other["flows"][0])
            have = {g["name"] for g in doc["groups"]}
            doc["groups"] += [g for g in other["groups"] if g["name"] not in have]
            src = "foreign2"
        if rng.random() < 0.3:   # localization is keyed by action / category uuids (never exported; must be renamed consistently)
            for f in doc["flows"]:
                loc = {}
                for n in f["nodes"]:
                    for a in n.get("actions", []):
                        if a["type"] == "send_msg" and rng.random() < 0.5:
                            loc[a["uuid"]] = {"text": ["bonjour"]}
                    for c in (n.get("router") or {}).get("categories", []):
                        if rng.random() < 0.3:
                            loc[c["uuid"]] = {"name": ["Autre"]}
                if loc:
                    f["localization"] = {"fra": loc}
        return src, doc
    doc = compiled_doc(rng)
    return "compiled", doc


def shape_stats(doc, bump):
    for f in doc["flows"]:
        ids = {n["uuid"] for n in f["nodes"]}
        indeg = {}
        selfloop = False
        for n in f["nodes"]:
            for e in n["exits"]:
                d = e.get("destination_uuid")
                if d:
                    indeg[d] = indeg.get(d, 0) + 1
                    selfloop |= d == n["uuid"]
        bump("flows")
        bump("nodes", len(ids))
        bump("flows_with_join", any(v > 1 for v in indeg.values()))
        bump("flows_with_self_loop", selfloop)
        bump("flows_with_router", any(n.get("router") for n in f["nodes"]))
        bump("flows_with_multi_action_node", any(len(n.get("actions", [])) > 1 for n in f["nodes"]))
        bump("flows_with_ui", bool(f.get("_ui")))
        capitals = any(ch.isupper() for n in f["nodes"] for ch in n["uuid"])
        bump("flows_written_with_capital_uuids", capitals)
        bump("flows_with_ui_written_with_capital_uuids", capitals and bool(f.get("_ui")))
        bump("flows_with_unreachable_node", not FJ.reachable_all(f))


def worker(args):
    seed, n, maxnodes, kinds_per_doc, use_cli, workdir = args
    rng = random.Random(seed)
    stats, bad, keys = {}, [], []
    sample = None

    def bump(k, v=1):
        stats[k] = stats.get(k, 0) + int(v)

    cli_left = 1 if use_cli else 0
    tie_items = []
    for i in range(n):
        src, doc = gen_doc(rng, maxnodes)
        if doc is None:
            bump("compile_failed")
            continue
        bump("generated." + src)
        if rng.random() < 0.04 and doc["flows"][0]["nodes"]:   # malformed stream for the tie: an exit into a node that does not exist
            doc = json.loads(json.dumps(doc))
            cands = [nd for nd in doc["flows"][0]["nodes"] if nd["exits"]]
            if cands:
                rng.choice(rng.choice(cands)["exits"])["destination_uuid"] = fresh_uuid(rng)
                bump("malformed.dangling_destination")
        with LogCapture():
            for t in tie_requests(doc):
                tie_items.append((doc, t))
        kinds = RENAMING_KINDS if kinds_per_doc >= len(RENAMING_KINDS) else ["fresh"] + rng.sample(RENAMING_KINDS[1:], kinds_per_doc - 1)
        # plus one (quick) / two (thorough) of the four re-spellings per file; all four in the corpus and in the search
        kinds = kinds + rng.sample(SPELLING_KINDS, max(1, min(len(SPELLING_KINDS), kinds_per_doc - len(RENAMING_KINDS))))
        sub = rng.randrange(1 << 60)
        with LogCapture():
            r = check_doc(doc, kinds, random.Random(sub), workdir)
        if r.get("export_error"):
            bump("exporter_rejects." + src)
            continue
        shape_stats(doc, bump)
        bump("exports", r["exports"])
        bump("rows", r["rows"])
        bump("go_to_rows", r["goto"])
        bump("flows_with_go_to", r["goto"] > 0)
        for k in kinds:
            bump("renaming." + k)
        keys.append(json.dumps(doc, sort_keys=True))
        if sample is None:
            sample = {"source": src, "nodes": doc["flows"][0]["nodes"][:2], "renamings": kinds}
        if r["fail"]:
            bad.append({"doc": doc, "kinds": kinds, "subseed": sub, "fail": r["fail"], "src": src})
            continue
        if i % 4 == 0:
            with LogCapture():
                for numbered in (False, True):
                    x = csv_vs_rows(export_files(doc, numbered, workdir), doc, numbered)
                    bump("csv_vs_to_rows")
                    if x:
                        bad.append({"doc": doc, "kinds": kinds, "subseed": sub, "src": src, "cli": True,
                                    "fail": {"what": "the written CSV does not carry the ids of to_rows: " + x["what"], "detail": x, "mode": "numbered" if numbered else "named"}})
        if cli_left and len(doc["flows"][0]["nodes"]) >= 3:
            cli_left -= 1
            ids = collect_uuids(doc)
            m = make_renaming("reverse_fresh", doc, ids, random.Random(sub))
            for numbered in (False, True):
                try:
                    a = export_files_cli(doc, numbered, workdir)
                    b = export_files_cli(apply_renaming(doc, m), numbered, workdir)
                    c = export_files(doc, numbered, workdir)
                except Exception as e:  # noqa: BLE001
                    bad.append({"doc": doc, "kinds": ["reverse_fresh"], "subseed": sub, "src": src, "cli": True,
                                "fail": {"what": "the command line exporter fails where the library call succeeds", "error": str(e)[:300]}})
                    break
                bump("cli_exports", 2)
                leaks, _ = scan_cells(a, ids)
                what = None
                if a != b:
                    what = "stripped sheets written by the command line differ after a bijective renaming of the uuids"
                elif leaks:
                    what = "a stripped sheet written by the command line contains a UUID"
                elif id_checks(a, numbered):
                    what = "command line: " + id_checks(a, numbered)[0]["what"]
                elif a != c:
                    what = "command line and library call write different stripped sheets"
                if what:
                    fn = next(iter(a), None)
                    bad.append({"doc": doc, "kinds": ["reverse_fresh"], "subseed": sub, "src": src, "cli": True,
                                "fail": {"what": what, "mode": "numbered" if numbered else "named", "mapping": m, "leak": leaks[:1],
                                         "original": a.get(fn, b"").decode("utf-8", "replace")[:2000], "renamed": b.get(fn, b"").decode("utf-8", "replace")[:2000]}})
                    break
    # tie B (one driver batch per worker)
    ties = []
    reqs = [t[0] for _, t in tie_items if t[0] is not None]
    answers = iter(core.Driver().results(reqs)) if reqs else iter(())
    for doc, (req, real, fi, numbered) in tie_items:
        if req is None:
            bump("tie.skipped_node_not_describable")
            continue
        ans = next(answers)
        bump("tie.compared")
        if isinstance(real, str):
            bump("tie.real_raises." + real)
        else:
            bump("tie.rows", len(real["rows"]))
            bump("tie.multi_edge_rows", sum(1 for r in real["rows"] if len(r["edges"]) > 1))
            if not numbered:
                bump("tie.named_ids_with_counter", sum(1 for r in real["rows"] if re.search(r"\.\d+$", r["id"])))
        d = tie_compare(req, real, ans)
        if d is not None:
            ties.append({"diff": d, "request": req if len(json.dumps(req)) < 6000 else {"nodes": len(req["nodes"])}, "document": doc if len(ties) < 2 else None})
    return {"stats": stats, "bad": bad[:6], "nbad": len(bad), "keys": keys, "sample": sample, "ties": ties[:5], "nties": len(ties)}


def search_worker(args):
    """failing-input search: the direct oracle only, larger flows"""
    seed, n, maxnodes, _, _, workdir = args
    rng = random.Random(seed)
    bad, cnt = [], 0
    for _ in range(n):
        src, doc = gen_doc(rng, maxnodes)
        if doc is None:
            continue
        sub = rng.randrange(1 << 60)
        with LogCapture():
            r = check_doc(doc, ALL_KINDS, random.Random(sub), workdir)
        cnt += 1
        if r["fail"]:
            bad.append({"doc": doc, "kinds": ALL_KINDS, "subseed": sub, "fail": r["fail"], "src": src})
    return {"bad": bad[:4], "n": cnt}


# ------------------------------------------------------------------ known-finding streams (deterministic)


def _single(actions, router=None, exits=None, seed=11):
    g = FJ.FlowGen(random.Random(seed), 1, special_text=False)
    doc = FJ.gen_container(random.Random(1), 1, special_text=False)
    n = {"uuid": g.uuid(), "actions": actions(g) if callable(actions) else actions, "exits": exits or [{"uuid": g.uuid(), "destination_uuid": None}]}
    if router:
        n["router"] = router
    doc["flows"][0]["nodes"] = [n]
    doc["groups"] = []
    return doc, g


def f_c17_a_doc(with_template=True):
    def acts(g):
        a = {"uuid": g.uuid(), "type": "send_msg", "text": "hello", "attachments": [], "quick_replies": []}
        if with_template:
            a["templating"] = {"uuid": g.uuid(), "template": {"uuid": TEMPLATE_UUID, "name": "welcome"}, "variables": ["@contact.name"]}
        return [a]
    doc, g = _single(acts)
    n2 = {"uuid": g.uuid(), "actions": [{"uuid": g.uuid(), "type": "set_contact_name", "name": "Bob"}], "exits": [{"uuid": g.uuid(), "destination_uuid": None}]}
    doc["flows"][0]["nodes"][0]["exits"][0]["destination_uuid"] = n2["uuid"]
    doc["flows"][0]["nodes"].append(n2)
    return doc


def f_c17_b_doc(operand="@input.text"):
    g = FJ.FlowGen(random.Random(12), 1, special_text=False)
    e1, e2, c1, c2, gu = g.uuid(), g.uuid(), g.uuid(), g.uuid(), g.uuid()
    router = {"type": "switch", "operand": operand, "wait": {"type": "msg"},
              "cases": [{"uuid": g.uuid(), "type": "has_group", "arguments": [gu, "GrpA"], "category_uuid": c1}],
              "categories": [{"uuid": c1, "name": "In", "exit_uuid": e1}, {"uuid": c2, "name": "Other", "exit_uuid": e2}],
              "default_category_uuid": c2, "result_name": "res"}
    doc, _ = _single([], router, [{"uuid": e1, "destination_uuid": None}, {"uuid": e2, "destination_uuid": None}])
    n2 = {"uuid": g.uuid(), "actions": [{"uuid": g.uuid(), "type": "send_msg", "text": "member", "attachments": [], "quick_replies": []}],
          "exits": [{"uuid": g.uuid(), "destination_uuid": None}]}
    doc["flows"][0]["nodes"][0]["exits"][0]["destination_uuid"] = n2["uuid"]
    doc["flows"][0]["nodes"].append(n2)
    doc["groups"] = [{"uuid": gu, "name": "GrpA"}]
    return doc, gu


def known_streams(ck, workdir):
    rng = random.Random(17)
    kinds = ["fresh", "plain_n", "reverse_order"]
    # F-C17-a: WhatsApp template id survives --strip_uuids
    doc = f_c17_a_doc(True)
    ck.count("known_stream.F-C17-a")
    lenient = check_doc(doc, kinds, random.Random(1), workdir, allow_template=True)
    if lenient["fail"]:      # fails beyond the known pattern (template id in column wa_template.uuid)
        ck.violation(lenient["fail"]["what"], {"document": doc, "renaming_kinds": kinds, "subseed": 1, "detail": lenient["fail"], "stream": "F-C17-a document, template id cell exempted"})
    else:
        strict = check_doc(doc, kinds, random.Random(1), workdir, allow_template=False)
        counter = check_doc(f_c17_a_doc(False), kinds, random.Random(1), workdir, allow_template=False)
        if strict["fail"]:
            trig = strict["fail"].get("leak", {})
            if (strict["fail"]["what"] == "a stripped sheet contains a UUID" and trig.get("column") == "wa_template.uuid"
                    and trig.get("uuid_shaped") == TEMPLATE_UUID and lenient["template_hits"] > 0 and not counter["fail"]):
                ck.known("F-C17-a", "the WhatsApp template id (templating.template.uuid) is copied into column wa_template.uuid of a --strip_uuids sheet",
                         {"cell": trig, "otherwise": "byte-identical under renamings of all listed uuids"})
            else:
                ck.violation(strict["fail"]["what"], {"document": doc, "renaming_kinds": kinds, "subseed": 1, "detail": strict["fail"], "stream": "F-C17-a (pattern did not match)"})
    # F-C17-b: has_group test in a router that is not a group split: the group's uuid is exported as the condition value
    doc, gu = f_c17_b_doc()
    ck.count("known_stream.F-C17-b")
    strict = check_doc(doc, kinds, random.Random(2), workdir)
    if strict["fail"]:
        counter_doc, _ = f_c17_b_doc(operand="@contact.groups")
        counter = check_doc(counter_doc, kinds, random.Random(2), workdir)
        leak = strict["fail"].get("leak", {})
        beyond = None
        if counter["fail"]:
            beyond = {"what": counter["fail"]["what"], "document": counter_doc, "detail": counter["fail"]}
        elif not (strict["fail"]["what"] == "a stripped sheet contains a UUID" and re.fullmatch(r"edges\.\d+\.condition", leak.get("column", ""))
                  and leak.get("uuid_shaped") == gu):
            beyond = {"what": strict["fail"]["what"], "document": doc, "detail": strict["fail"]}
        else:
            # apart from that uuid the sheets must be renaming-invariant and uuid-free
            ids = collect_uuids(doc)
            for numbered in (False, True):
                base = export_files(doc, numbered, workdir)
                m = make_renaming("fresh", doc, ids, rng)
                got = export_files(apply_renaming(doc, m), numbered, workdir)
                back = {fn: d.replace(m[gu].encode(), gu.encode()) for fn, d in got.items()}
                leaks, _ = scan_cells(base, ids)
                other = [l for l in leaks if l.get("uuid_shaped") != gu]
                if other:
                    beyond = {"what": "a stripped sheet contains a UUID", "document": doc, "detail": {"leak": other[0], "mode": "numbered" if numbered else "named"}}
                elif back != base:
                    fn = next(iter(base))
                    beyond = {"what": "stripped sheets differ after a bijective renaming of the uuids", "document": doc,
                              "detail": {"mode": "numbered" if numbered else "named", "mapping": m, "note": "beyond the group uuid of F-C17-b (substituted back before comparing)",
                                         "original": base[fn].decode("utf-8", "replace")[:2000], "renamed": got[fn].decode("utf-8", "replace")[:2000]}}
                ids_p = id_checks(base, numbered)
                if ids_p and not beyond:
                    beyond = {"what": ids_p[0]["what"], "document": doc, "detail": ids_p[0]}
        if beyond is None:
            ck.known("F-C17-b", "a has_group test in a router whose operand is not @contact.groups exports the group's uuid as the condition value",
                     {"cell": leak})
        else:
            ck.violation(beyond["what"], {"document": beyond["document"], "renaming_kinds": kinds, "subseed": 2, "detail": beyond["detail"], "stream": "F-C17-b document (failure beyond the known pattern)"})


def spelling_corpus(ck, workdir):
    """Small deterministic corpus run first: flows WITH `_ui` node positions (and localization keyed by uuids),
    each as written (lower-case uuid4s) and re-written in capitals / mixed case, under every re-spelling of
    the uuids plus a fresh lower-case renaming."""
    kinds = ["fresh"] + SPELLING_KINDS
    for i, nn in enumerate([1, 2, 3, 4, 6, 8]):
        doc = FJ.gen_container(random.Random(1700 + i), nn, special_text=False, ui=True)
        for f in doc["flows"]:
            loc = {a["uuid"]: {"text": ["bonjour"]} for n in f["nodes"] for a in n.get("actions", []) if a["type"] == "send_msg"}
            if loc:
                f["localization"] = {"fra": loc}
        for base in ("lower", "upper_same", "mixed_same"):
            d = doc
            if base != "lower":
                ids = collect_uuids(doc)
                d = apply_renaming(doc, make_renaming(base, doc, ids, random.Random(1800 + i)))
            sub = 1900 + i
            r = check_doc(d, kinds, random.Random(sub), workdir)
            if r.get("export_error"):
                ck.count("spelling_corpus.exporter_rejects")
                continue
            ck.count("spelling_corpus.files")
            ck.count("spelling_corpus.files_written_in_" + base.split("_")[0] + "_case")
            ck.count("spelling_corpus.exports", r["exports"])
            if r["fail"]:
                report_bad(ck, {"doc": d, "kinds": kinds, "subseed": sub, "fail": r["fail"], "src": "spelling corpus (flows with _ui positions; uuids in lower / upper / mixed case)"}, workdir)
                return


def witness_replay(ck, workdir):
    """Props/C17.lean needs_injective on the real code: merging the two nodes of a → b (a NON-injective renaming)
    turns the edge into a self loop, and the real sheet gets a go_to row as well."""
    g = FJ.FlowGen(random.Random(3), 1, special_text=False)
    doc = FJ.gen_container(random.Random(1), 1, special_text=False)
    a, b = g.uuid(), g.uuid()
    doc["flows"][0]["nodes"] = [
        {"uuid": a, "actions": [{"uuid": g.uuid(), "type": "send_msg", "text": "a", "attachments": [], "quick_replies": []}], "exits": [{"uuid": g.uuid(), "destination_uuid": b}]},
        {"uuid": b, "actions": [{"uuid": g.uuid(), "type": "send_msg", "text": "b", "attachments": [], "quick_replies": []}], "exits": [{"uuid": g.uuid(), "destination_uuid": None}]},
    ]
    doc["groups"] = []
    for numbered in (False, True):
        base = export_files(doc, numbered, workdir)
        merged = export_files(apply_renaming(doc, {b: a}), numbered, workdir)
        ck.count("needs_injective_witness_replayed")
        if base == merged or b"go_to" not in merged["flow.csv"] or b"go_to" in base["flow.csv"]:
            ck.tie_break("needs_injective witness: the real exporter does not react to merging two nodes like the model",
                         {"base": base["flow.csv"].decode(), "merged": merged["flow.csv"].decode()})


# ------------------------------------------------------------------ run


def run(ck: core.Check):
    ck.lean = core.lean_step("C17", thorough=(ck.tier == "thorough"))
    if not core.DRIVER_BIN.exists():
        raise core.Infra("driver not built:\n" + ck.lean.log[-2000:])
    quick = ck.tier == "quick"
    ck.rule = (
        "flow files from two seeded streams — export-schema flows (trees, joins, cycles, self loops, every node / router / action kind "
        "the sheet vocabulary covers, texts with | ; \\ , quotes, newlines, non-ASCII, optional _ui and localization keyed by uuids, sometimes "
        "two flows per file) and outputs of the real compiler on random core sheets; each exported by the real flows_to_sheets --strip_uuids "
        "(csv; named and --numbered) under the identity and under bijective renamings of all its uuids: fresh random, order-reversing permutation, "
        "order-reversing fresh, non-UUID names n<k> / zz-<k>, swap of two nodes, swap of any two, random permutation, and re-spellings in other "
        "legal letter case (the same uuids in capitals / mixed case, fresh uuids in capitals / mixed case; 15% of the files are themselves written "
        "with capital / mixed-case uuids), preceded by a small deterministic corpus of flows with _ui positions in the three spellings; "
        "a case = one exportable flow file; distinct = distinct JSON"
    )
    ck.assumptions = [
        "RowParser.unparse_row, networkx.topological_sort and tablib CSV export are functions of the uuid-free row content (uninterpreted in the theorem; exercised on every case)",
        "uuid.uuid4() used for go_to temp ids is fresh (model: counter)",
        "WhatsApp template ids are not part of the statement's renaming list: held fixed",
    ]
    ck.partial_gap = [
        "row content (action / router fields) and edge conditions are opaque uuid-free strings in the model: that get_row_model_fields / "
        "get_exit_edge_pairs / short_name put no uuid of the renaming list into them is checked on every case by the cell scan, not proved "
        "(known exceptions: F-C17-a template id, F-C17-b has_group outside a group split)",
        "no temp id lookup of the remapping fails (KeyError): not proved, checked by the tie on every case (the invariance theorems hold for the error "
        "results as well; recursion fuel and uniqueness-counter fuel ARE proved sufficient)",
        "unparse_row / topological_sort / tablib export are uninterpreted functions of the uuid-free rows (sheet_renaming_invariant is parametric in them)",
    ]
    workdir = tempfile.mkdtemp(prefix="c17_")
    try:
        with LogCapture():
            known_streams(ck, workdir)
            witness_replay(ck, workdir)
            spelling_corpus(ck, workdir)
        n_total = 640 if quick else 6400
        maxnodes = 9 if quick else 16
        nshards = par.NPROC * (1 if quick else 3)
        tie_docs = []
        jobs = [(ck.rng.randrange(1 << 60), n_total // nshards, maxnodes, len(RENAMING_KINDS) + (1 if quick else 2), i < (8 if quick else 16), workdir) for i in range(nshards)]
        for r in par.pmap(worker, jobs):
            for k, v in r["stats"].items():
                ck.count(k, int(v))
            for key in r["keys"]:
                ck.case(key, nontrivial=True)
            if r["sample"] and len(ck.samples) < 3:
                ck.samples.append(r["sample"])
            for b in r["bad"][:2]:
                report_bad(ck, b, workdir)
            for t in r["ties"]:
                ck.tie_break("model toRows/remap and real to_rows differ: " + t["diff"]["what"], t)
                tie_docs.append(t.get("document"))
            if r["nties"] > len(r["ties"]):
                ck.count("tie_break", r["nties"] - len(r["ties"]))
            if r["nbad"] > 2:
                ck.count("failing_cases_not_shrunk", r["nbad"] - 2)
        if (ck.tie_breaks or not ck.lean.ok) and not ck.violations:
            # obligation broken: failing-input search = the disagreeing flow files under every renaming kind + a thorough-size
            # sample of the generators through the direct oracle
            ck.search_ran = True
            for d in [d for d in tie_docs if d][:10]:
                with LogCapture():
                    r = check_doc(d, ALL_KINDS, random.Random(1), workdir)
                ck.count("search.disagreeing_inputs")
                if r["fail"]:
                    report_bad(ck, {"doc": d, "kinds": ALL_KINDS, "subseed": 1, "fail": r["fail"], "src": "tie disagreement"}, workdir)
            if quick and not ck.violations:
                jobs = [(ck.rng.randrange(1 << 60), 40, 14, len(RENAMING_KINDS), False, workdir) for _ in range(par.NPROC)]
                for r in par.pmap(search_worker, jobs):
                    ck.count("search.cases", r["n"])
                    for b in r["bad"][:2]:
                        report_bad(ck, b, workdir)
        need = {"generated.foreign": 20, "generated.compiled": 20, "flows_with_join": 10, "flows_with_go_to": 10, "flows_with_self_loop": 3,
                "flows_with_multi_action_node": 10, "flows_with_ui": 10, "flows_written_with_capital_uuids": 10,
                "flows_with_ui_written_with_capital_uuids": 3, "spelling_corpus.files": 12,
                "renaming.upper_same": 40, "renaming.fresh_upper": 40, "renaming.mixed_same": 40, "renaming.fresh_mixed": 40, "cli_exports": 4, "tie.compared": 200, "tie.multi_edge_rows": 20,
                "tie.named_ids_with_counter": 20, "tie.real_raises.ValueError": 1, "csv_vs_to_rows": 20}
        for k, v in need.items():
            if ck.violations:
                break       # failing cases stop early (no CLI / tie sample for them): a violation is never masked by the self-check
            if ck.strata.get(k, 0) < v:
                raise core.Infra(f"generator stratum {k} under-represented: {ck.strata.get(k, 0)} < {v}")
    finally:
        shutil.rmtree(workdir, ignore_errors=True)


def report_bad(ck, b, workdir):
    if b.get("cli"):
        ck.violation(b["fail"]["what"], {"document": b["doc"], "detail": b["fail"], "source": b["src"], "via": "command line"})
        return
    kinds, sub = b["kinds"], b["subseed"]

    def failing(d):
        with LogCapture():
            r = check_doc(d, kinds, random.Random(sub), workdir)
        return r["fail"]

    doc, det = shrink_doc(b["doc"], failing)
    det = det or b["fail"]
    ck.violation(det["what"], {"document": doc, "renaming_kinds": kinds, "subseed": sub, "detail": det, "source": b["src"]})


def replay(path):
    rec = json.load(open(path))
    print(json.dumps(rec, indent=1, ensure_ascii=False)[:8000])
    rp = rec.get("replay", {})
    if rp.get("document"):
        wd = tempfile.mkdtemp(prefix="c17r_")
        try:
            r = check_doc(rp["document"], rp.get("renaming_kinds") or ALL_KINDS, random.Random(rp.get("subseed", 0)), wd)
            print("re-run on the current tree:", json.dumps(r["fail"], indent=1, ensure_ascii=False)[:3000] if r["fail"] else "no failure")
        finally:
            shutil.rmtree(wd, ignore_errors=True)
    return 0
