"""C07 — row models survive the trip to spreadsheet cells and back, in every layout.

A  proof step: Rpft.Props.C07 (parse_unparse family, tables_agree for the flow row schema,
   negative witnesses) re-checked by the kernel against tables regenerated from /repo.
B  tie: Lean model of unparse_row / parse_row vs the real RowParser + CellParser, on the
   intermediate dict[str,str] and on the parsed value, for every generated case (inside and
   outside the representable domain).
C  oracle: parse_row(unparse_row(m, layout)) == m on the real code for every case inside the
   representable domain × admissible layouts; and through real csv / xlsx files.
"""
from __future__ import annotations

import json
import os
import shutil
import tempfile

from .. import core, par
from .. import rowgen as G
from .. import rowlib as R

MANIFEST = dict(
    text="Proof: Lean theorem parse_unparse — parse_row(unparse_row(m, layout)) = m over a hand model of RowParser + CellParser — for EVERY row model whose field types are built, to any nesting depth, from str/int/float/bool, untyped lists, List[T] and sub-records (lists of lists, lists of records holding lists and records, records in records, …) and whose remap tables are consistent at every level (decidable side condition goodTop: names and headers are distinct header segments, header_name_to_field_name undoes field_name_to_header_name), for every representable value (unbounded strings, integers, list lengths, numbers of fields; default elision/restoration) and EVERY layout that is LayoutOk for the value: each position independently spread over one column per leaf or written as one cell (target headers with * or concrete indices, or forced by a remapped field), a one-cell position having a type within the two-level limit (packTy, proved ≤ depth 2), spread positions nesting arbitrarily. Top-level header remaps are covered through RemapConsistent (header_name_to_field_name_with_context leads back to the written field). Instance flow_row_roundtrip: the real FlowRowModel (Edge with from_↔from, nested Condition, Webhook with untyped headers, WhatsAppTemplating with a list, node_uuid/_nodeId …, message_text ↦ row_type_to_main_arg[type]) — its schema and all remap dictionaries are tied to the source by T1 theorems (tables_agree_*), flowRowSchema_in_family and every side condition on the tables are discharged by `decide` on those tables, the only value-level hypothesis is flowMainOk (the field written under message_text is the main argument of the row's type). Proved by structural induction on the schema type (no bounds); int(str(i)) = i proved; every hypothesis has a kernel-checked negative witness that is replayed on the real code. The model is tied to the code by differential runs over dynamically created pydantic row models (fixed + random schemas + FlowRowModel) × all target-header subsets (≤ 64, sampled beyond) × strings over | ; \\ space newline , \" é 日 1 0 true and field-name-shaped strings, on the intermediate dict and on the parsed value; the theorem's own hypotheses (goodTop, Representable, LayoutOk, RemapConsistent) are evaluated by the Lean driver for every case and the round trip is demanded of the real code whenever they hold; also through real csv/xlsx files. The CSV file clause has its own theorems (Props/C07_File.lean): the text RowDataSheet.export(csv) writes is modelled (Csv.rdsExportCsv = tablib's csv.writer text with every CR removed; tied by exact comparison with the bytes of every written file) and rds_csv_reads_back_without_cr proves that for EVERY grid of cells within the reader's field limit the csv.reader model reads back the grid with the carriage returns removed from each cell and nothing else changed; rds_csv_roundtrip_iff: the file route is the identity iff no cell holds a CR (the other half is known finding F-C07-b, with a deterministic stream).",
    ref="§5 C07",
    note="Trusts: Lean kernel (axioms audited each run), the differential harness and Driver JSON codec, pydantic v1 (field order, defaults, ==), CPython str()/int()/float() as modelled (float is an abstract codec carrying repr(x)), tablib/csv/openpyxl for the file route. The first-round statement with the static Admissible (list index 1 standing for every index) is kept visible as C07_static_statement and proved FALSE (target items.2 on a list of records holding lists): the general theorem checks the layout along the value (LayoutOk). Representable now counts an empty untyped list inside List[list] as a blank element (it leaves no cell). Known finding F-C04-d (spread untyped list of lists) is excluded by LayoutOk and exercised separately. Known finding F-C07-b (RowDataSheet.export(csv) removes the carriage returns inside cells) has a stream of in-domain values with CR / CRLF inside a string: each must come back intact (then nothing is printed) or exactly without its CRs; the other file cases are CR-free. Templates ('{') and excluded_headers are outside the domain.",
    technique="Lean 4 proof (structural induction on the nested schema type; position-local view of find_entry with focus lemmas for record fields and list indices; C08 split_join for one-cell values; context remap undone via a virtual header table) + model/code correspondence + direct round-trip oracle on the theorem's own domain",
)

_SCHEMAS: list = []   # (description, schema JSON, meta) — filled before forking
_FLOW = {}


def setup_schemas(rng, n_random):
    _SCHEMAS.clear()
    for t in G.FIXED_SCHEMAS:
        _SCHEMAS.append((t, R.schema_json(t), {"kind": "fixed"}))
    for i in range(n_random):
        t = G.random_schema(rng, i)
        _SCHEMAS.append((t, R.schema_json(t), {"kind": "random"}))
    t, sj, mainarg = R.flow_row_schema()
    _FLOW.update(t=t, sj=sj, mainarg=mainarg, idx=len(_SCHEMAS))
    _SCHEMAS.append((t, sj, {"kind": "flow"}))


# ------------------------------------------------------------------ flow row values

def flow_value(rng, clean=True, consistent=True):
    t, mainarg = _FLOW["t"], _FLOW["mainarg"]
    names = ["value", "type", "name", "from", "from_", "start", "row_id", "url"]
    v = {n: d for n, ft, d in t[2]}
    rt = rng.choice(list(mainarg))
    v["type"] = rt
    v["row_id"] = G.gen_str(rng, names, clean)
    cond_t = dict((n, ft) for n, ft, _ in t[2])["edges"][1]
    edges = []
    n_edges = rng.choice([1, 1, 2, 3])
    if rng.random() < G.P_LONG:
        n_edges = rng.choice(G.LONG)      # a row many rows lead to: edges.10.from, edges.10.condition.value, …
        G.STRATA["lists.long(10-12).edges"] += 1
    for _ in range(n_edges):
        e = G.gen_value(rng, cond_t, names, clean, False, 1)
        if clean and R.all_default(cond_t, e):
            e["from_"] = "start"
        edges.append(e)
    v["edges"] = edges
    tys = dict((n, ft) for n, ft, _ in t[2])
    target = mainarg[rt]
    if target == "webhook.body":
        wb = G.gen_value(rng, tys["webhook"], names, clean, False, 1)
        v["webhook"] = wb
    elif rng.random() < 0.85:
        x = G.gen_value(rng, tys[target], names, clean, False, 0)
        v[target] = x
    if not consistent:
        other = rng.choice([m for m in set(mainarg.values()) if m != target and m != "webhook.body"])
        v[other] = G.gen_value(rng, tys[other], names, clean, False, 0)
    for n, ft, d in t[2]:
        if n in ("type", "edges", "row_id") or n.startswith("mainarg_") or n == "webhook":
            continue
        if rng.random() < 0.2:
            v[n] = G.gen_value(rng, ft, names, clean, False, 0)
    return v


def remap_consistent(t, sj, v):
    """every remapped top-level header leads back to its field (flow row: only the main argument
    selected by the row type may be non-default, and the headers must not collide)"""
    basic = dict(sj.get("basic") or [])
    main = sj.get("main")
    seen = set()
    for n, ft, d in t[2]:
        h = t[4].get(n, n)
        if d is not REQ_ and v[n] == d:
            continue
        if h in seen:
            return False
        seen.add(h)
        if h == n:
            continue
        back = basic.get(h)
        if back is None and main and h == main[0]:
            back = dict(main[2]).get(v.get(main[1]))
        if back is None:
            back = t[3].get(h, h)
        if back != n:
            return False
    return True


REQ_ = R.REQ


def in_domain(t, sj, targets, v):
    return (R.representable(t, v) and R.admissible(t, targets) and R.any_spread_ok(t, targets, v)
            and remap_consistent(t, sj, v))


# ------------------------------------------------------------------ worker

def worker(cases):
    """cases: (schema index, targets, plain value, stream)"""
    drv = core.Driver()
    reqs = []
    for si, targets, v, stream in cases:
        t, sj, _ = _SCHEMAS[si]
        reqs.append({"op": "row.roundtrip", "sch": sj, "targets": targets, "v": R.val_json(t, v)})
    answers = drv.results(reqs)
    domains = drv.results([dict(r, op="row.domain") for r in reqs])
    domains2 = drv.results([dict(r, op="row.domain2") for r in reqs])   # hypotheses of Props.C07.parse_unparse
    out = {"n": 0, "ties": [], "viol": [], "strata": {}, "keys": [], "samples": [], "known": []}
    shared = {}            # schema index → one RowParser reused over the shard

    def count(s):
        out["strata"][s] = out["strata"].get(s, 0) + 1

    for (si, targets, v, stream), a, dm, d2 in zip(cases, answers, domains, domains2):
        t, sj, meta = _SCHEMAS[si]
        out["n"] += 1
        # the general theorem's own domain, evaluated by the Lean predicates themselves
        thm = isinstance(d2, dict) and "__error__" not in d2 and all(d2.get(k) is True for k in ("good", "repr", "lay", "remap"))
        # the oracle's domain must be the theorem's domain: Python mirror vs the Lean predicates
        mirror = {"repr": R.representable(t, v), "adm": R.admissible(t, targets), "any": R.any_spread_ok(t, targets, v)}
        if dm != mirror:
            out["ties"].append({"what": "Representable/Admissible/AnySpreadOk: harness mirror differs from the Lean predicates",
                                "lean": dm, "harness": mirror, "schema_name": t[1], "targets": targets, "value": R.val_json(t, v)})
        cls = R.mk_class(t)
        try:
            inst = R.instance(t, v)
        except Exception as e:  # noqa: BLE001  (generator bug, not a property matter)
            out["ties"].append({"what": "generator produced an invalid instance", "err": repr(e)[:200], "schema": t[1]})
            continue
        want = R.canon_plain(t, v)
        cells_real, raw = R.real_unparse(cls, inst, targets)
        cells_model = ("driver-error", a["__error__"]) if "__error__" in a else (
            ("ok", a["cells"]["ok"]) if "ok" in a["cells"] else ("err", a["cells"]["err"]))
        replay = {"schema": R.ty_json(t), "schema_name": t[1], "targets": targets, "value": R.val_json(t, v), "stream": stream}
        if not R.same_outcome(cells_real, cells_model):
            out["ties"].append({"what": "unparse_row: model and real code differ", "real": cells_real, "model": cells_model, **replay})
        dom_h = in_domain(t, sj, targets, v)
        dom = dom_h or thm          # the oracle is evaluated on the union
        count(f"{meta['kind']}.{'in' if dom else 'out'}-domain")
        if thm:
            count(f"theorem-domain.{meta['kind']}")
        if thm != dom_h:
            count("domain.theorem-only" if thm else "domain.harness-mirror-only")
            if not thm and len(out["samples"]) < 4:
                out["samples"].append({"harness-mirror-only": t[1], "targets": targets, "lean": d2})
        if cells_real[0] != "ok":
            count("unparse-error")
            if dom:
                out["viol"].append({"what": "unparse_row raises on a representable value in an admissible layout", "error": cells_real[1], **replay})
            continue
        as_text = dict((k, s) for k, s in cells_real[1])
        back_text = R.real_parse(cls, t, as_text)          # what a sheet file would hold
        back_raw = R.real_parse(cls, t, raw)               # the dict exactly as unparse_row returns it
        # the same row through ONE parser per schema that has written and read other rows before: a row's cells
        # and a row's value depend on that row only
        if si not in shared:
            from rpft.parsers.common.cellparser import CellParser
            from rpft.parsers.common.rowparser import RowParser
            shared[si] = RowParser(cls, CellParser())
        sh_cells, sh_back = R.shared_roundtrip(shared[si], t, inst, targets, as_text)
        count("reused-parser.rows")
        if (sh_cells != cells_real or sh_back != back_text) and len(out["viol"]) < 60:
            out["viol"].append({"what": "a row written / read by a parser that has handled other rows before differs from the same row handled by a fresh parser",
                                "fresh": {"cells": cells_real, "parsed": back_text}, "reused": {"cells": sh_cells, "parsed": sh_back}, **replay})
        back_model = R.model_result(a["back"]) if "__error__" not in a else ("driver-error", a["__error__"])
        if back_model is None or not R.same_outcome(back_text, back_model):
            out["ties"].append({"what": "parse_row: model and real code differ", "cells": cells_real[1], "real": back_text, "model": back_model, **replay})
        # the same VALUE held by instances with other construction histories (filled in place after construction,
        # assigned field by field, deep-copied, validated from a plain dict): the cells are a function of the value
        for hname, build in R.HISTORIES:
            try:
                inst_h = build(t, v)
                if R.canon_plain(t, R.plain_of_instance(t, inst_h)) != want:
                    count(f"history.{hname}.other-value")      # this history does not reach the value (coercions)
                    continue
            except Exception:  # noqa: BLE001
                count(f"history.{hname}.not-buildable")
                continue
            count(f"history.{hname}")
            cells_h, _ = R.real_unparse(cls, inst_h, targets)
            if cells_h == cells_real:
                continue
            back_h = R.real_parse(cls, t, dict((k, x) for k, x in cells_h[1])) if cells_h[0] == "ok" else cells_h
            if dom and back_h != ("ok", want) and len(out["viol"]) < 60:
                out["viol"].append({"what": f"parse_row(unparse_row(m, layout)) != m for an instance m that was {hname} (the constructor-built "
                                            "instance of the same value survives)", "history": hname, "cells": cells_h[1] if cells_h[0] == "ok" else cells_h,
                                    "cells_of_constructed_twin": cells_real[1], "got": back_h, "expected": want, **replay})
            elif len(out["ties"]) < 60:
                out["ties"].append({"what": f"unparse_row: two instances holding the same value give different cells ({hname} vs constructed)",
                                    "history": hname, "real_constructed": cells_real, "real_history": cells_h, **replay})
        packed = sum(1 for _, _, p in R.walk_layout(t, targets) if p)
        count("layout.packed-some" if packed else "layout.all-spread")
        if dom:
            key = json.dumps([t[1], sorted(targets), R.val_json(t, v)], sort_keys=True, ensure_ascii=False)
            out["keys"].append(key)
            if len(out["samples"]) < 2 and len(cells_real[1]) > 2:
                out["samples"].append({"schema": t[1], "targets": targets, "cells": cells_real[1]})
            for label, back in (("as returned", back_raw), ("as text cells", back_text)):
                if back != ("ok", want):
                    out["viol"].append({
                        "what": f"parse_row(unparse_row(m, layout)) != m ({label})",
                        "cells": cells_real[1], "got": back, "expected": want, **replay})
                    break
    return out


# ------------------------------------------------------------------ real files

def file_worker(cases):
    from rpft.parsers.common.cellparser import CellParser
    from rpft.parsers.common.rowdatasheet import RowDataSheet
    from rpft.parsers.common.rowparser import RowParser
    from rpft.parsers.common.sheetparser import SheetParser
    from rpft.parsers.sheets import CSVSheetReader, XLSXSheetReader

    out = {"n": 0, "viol": [], "strata": {}}
    tmp = tempfile.mkdtemp(prefix="c07_")
    try:
        for ci, (si, targets, v, fmt) in enumerate(cases):
            t, sj, meta = _SCHEMAS[si]
            cls = R.mk_class(t)
            inst = R.instance(t, v)
            rp = RowParser(cls, CellParser())
            d = os.path.join(tmp, f"c{ci}")
            os.mkdir(d)
            replay = {"schema": R.ty_json(t), "schema_name": t[1], "targets": targets, "value": R.val_json(t, v), "format": fmt}
            try:
                sheet = RowDataSheet(rp, [inst], set(targets))
                cells = rp.unparse_row(inst, set(targets))
                if len(cells) < 2 or not any(str(x) for x in cells.values()):
                    # a row without any non-blank cell is not a row of a sheet file; RowDataSheet._get_headers
                    # derives the header list from pairs of consecutive headers, so a 1-column sheet has none
                    out["strata"]["file.skipped-degenerate"] = out["strata"].get("file.skipped-degenerate", 0) + 1
                    continue
                if fmt in ("csv", "csv-cr"):
                    sheet.export(os.path.join(d, "s.csv"), "csv")
                    # tie of the Lean model of the written text (Csv.rdsExportCsv, Props/C07_File.lean); the records are
                    # read with a private-ish helper of the repo: if that is not there any more, the TIE breaks, nothing else
                    try:
                        ds = sheet.convert_to_tablib()
                        recs = [[str(h) for h in (ds.headers or [])]] + [["" if c is None else str(c) for c in row] for row in ds]
                        with open(os.path.join(d, "s.csv"), "rb") as fh:
                            out.setdefault("rds", []).append((recs, fh.read().decode("utf-8", "surrogatepass")))
                    except Exception as e:  # noqa: BLE001
                        out.setdefault("ties", []).append({"what": "cannot read the records RowDataSheet hands to tablib (text tie of Csv.rdsExportCsv)",
                                                           "error": repr(e)[:200]})
                    table = CSVSheetReader(d).sheets["s"].table
                else:
                    sheet.export(os.path.join(d, "s.xlsx"), "xlsx")
                    table = list(XLSXSheetReader(os.path.join(d, "s.xlsx")).sheets.values())[0].table
                rows = SheetParser(rp, table).parse_all()
                got = [R.canon_plain(t, R.plain_of_instance(t, r)) for r in rows]
            except Exception as e:  # noqa: BLE001
                out["viol"].append({"what": f"export → {fmt} → read → parse_all raises", "error": repr(e)[:300], **replay})
                continue
            out["n"] += 1
            out["strata"][f"file.{fmt}"] = out["strata"].get(f"file.{fmt}", 0) + 1
            if fmt == "csv-cr":
                # F-C07-b stream: a carriage return inside a cell.  Either it survives (defect absent), or the row
                # read back is EXACTLY the row with every CR removed (the finding); anything else is a violation.
                if got == [R.canon_plain(t, v)]:
                    out["strata"]["file.csv-cr.survives"] = out["strata"].get("file.csv-cr.survives", 0) + 1
                elif got == [R.canon_plain(t, without_cr(v))]:
                    out.setdefault("cr_known", []).append({"got": got, "expected": [R.canon_plain(t, v)], **replay})
                else:
                    out["viol"].append({"what": "RowDataSheet.export → csv → sheet reader → SheetParser.parse_all: a row with a carriage "
                                                "return in a cell comes back neither intact nor as finding F-C07-b describes (CR removed, nothing else)",
                                        "got": got, "expected": [R.canon_plain(t, v)], **replay})
                continue
            if got != [R.canon_plain(t, v)]:
                out["viol"].append({"what": f"RowDataSheet.export → {fmt} → sheet reader → SheetParser.parse_all != original row",
                                    "got": got, "expected": [R.canon_plain(t, v)], **replay})
    finally:
        shutil.rmtree(tmp, ignore_errors=True)
    return out


def xlsx_safe(v):
    if isinstance(v, bool) or isinstance(v, str):
        return True
    if isinstance(v, int):
        return abs(v) < 2**53
    if isinstance(v, float):
        return v == v and abs(v) < 1e15 and (v == 0 or abs(v) > 1e-4)
    if isinstance(v, dict):
        return all(xlsx_safe(x) for x in v.values())
    return all(xlsx_safe(x) for x in v)


def strings_of(v):
    if isinstance(v, str):
        yield v
    elif isinstance(v, dict):
        for x in v.values():
            yield from strings_of(x)
    elif isinstance(v, list):
        for x in v:
            yield from strings_of(x)


def without_cr(v):
    if isinstance(v, str):
        return v.replace("\r", "")
    if isinstance(v, dict):
        return {k: without_cr(x) for k, x in v.items()}
    if isinstance(v, list):
        return [without_cr(x) for x in v]
    return v


def with_cr(rng, v):
    """→ a copy of v with a CR (or CRLF) put INSIDE one of its strings (never at an edge: the domain is trimmed
    strings), or None when v has no string of two characters"""
    paths = []

    def walk(x, path):
        if isinstance(x, str) and len(x) >= 2:
            paths.append(path)
        elif isinstance(x, dict):
            for k, y in x.items():
                walk(y, path + [k])
        elif isinstance(x, list):
            for i, y in enumerate(x):
                walk(y, path + [i])
    walk(v, [])
    if not paths:
        return None
    path = rng.choice(paths)
    import copy
    w = copy.deepcopy(v)
    x = w
    for k in path[:-1]:
        x = x[k]
    sv = x[path[-1]]
    i = rng.randint(1, len(sv) - 1)
    x[path[-1]] = sv[:i] + rng.choice(["\r", "\r\n", "\r\r"]) + sv[i:]
    return w


_XLSX_ILLEGAL = set(map(chr, list(range(0, 9)) + [11, 12] + list(range(14, 32))))   # openpyxl refuses them (not XML 1.0 characters)


def file_skip(v, fmt):
    """→ stratum name when the value is outside what the file FORMAT / its library carries (not a matter of the row
    codec), else None.  CR: Excel normalises it to LF; RowDataSheet.export(csv) removes every CR of the exported
    text, those inside cells too (known finding F-C07-b: such values go to the `csv-cr` stream; the row codec itself
    keeps CR)."""
    if any("\r" in s for s in strings_of(v)):
        return "file.skipped-carriage-return-in-cell"
    if fmt == "xlsx" and any(c in _XLSX_ILLEGAL for s in strings_of(v) for c in s):
        return "file.xlsx-skipped-character-illegal-in-worksheets"
    return None


# ------------------------------------------------------------------ run

def gen_cases(ck, per_layout, flow_n, out_frac=0.25):
    rng = ck.rng
    cases = []
    for si, (t, sj, meta) in enumerate(_SCHEMAS):
        if meta["kind"] == "flow":
            continue
        names = G.field_names(t)
        lays, exhaustive = G.layouts(rng, t)
        ck.count("layouts.exhaustive" if exhaustive else "layouts.sampled")
        for lay in lays:
            for _ in range(per_layout):
                clean = rng.random() >= out_frac
                v = G.gen_value(rng, t, names, clean)
                cases.append((si, lay, v, "clean" if clean else "dirty"))
    # the flow row model: the layout of the real export, other admissible ones, and inadmissible ones
    t, fi = _FLOW["t"], _FLOW["idx"]
    lays, _ = G.layouts(rng, t, limit=40)
    adm = [l for l in lays if R.admissible(t, l)]
    real_layout = ["edges.*.condition"]
    for i in range(flow_n):
        clean = rng.random() >= out_frac
        v = flow_value(rng, clean=clean, consistent=rng.random() < 0.9)
        r = rng.random()
        lay = real_layout if r < 0.4 else (rng.choice(adm) if r < 0.85 else rng.choice(lays))
        cases.append((fi, lay, v, "flow"))
    take_value_strata(ck)
    return cases


def take_value_strata(ck):
    """strata counted by the shared value generator (harness/rowgen.py) → evidence"""
    for k, n in G.STRATA.items():
        ck.count("values." + k, n)
    G.STRATA.clear()


def known_finding_stream(ck):
    """F-C04-d: an untyped list holding lists (webhook headers), spread over `….i.j` columns,
    cannot be parsed back.  Deterministic trigger; counterfactual: packing the field repairs it."""
    t, fi = _FLOW["t"], _FLOW["idx"]
    v = {n: d for n, ft, d in t[2]}
    v["type"] = "call_webhook"
    v["edges"] = [{"from_": "start", "condition": {"value": "", "variable": "", "type": "", "name": ""}}]
    v["webhook"] = {"url": "http://x", "method": "GET", "headers": [["k", "v"]], "body": ""}
    cls = R.mk_class(t)
    inst = R.instance(t, v)
    want = ("ok", R.canon_plain(t, v))
    cells, raw = R.real_unparse(cls, inst, ["edges.*.condition"])
    back = R.real_parse(cls, t, raw) if raw is not None else None
    cells2, raw2 = R.real_unparse(cls, inst, ["edges.*.condition", "webhook.headers"])
    back2 = R.real_parse(cls, t, raw2) if raw2 is not None else None
    ck.evaluations += 2
    trigger = cells[0] == "ok" and any(k.startswith("webhook.headers.1.") for k, _ in cells[1])
    if back == want:
        ck.notes.append("F-C04-d no longer reproduces (spread webhook headers parse back)")
    elif trigger and back is not None and back[0] == "err" and back2 == want:
        ck.known("F-C04-d", "untyped list of lists spread as webhook.headers.i.j cannot be parsed back (AssertionError in find_entry); packing the field repairs it",
                 {"cells": cells[1], "parse": back})
    else:
        ck.violation("flow row with webhook headers does not survive, and not in the way finding F-C04-d describes",
                     {"value": R.val_json(t, v), "cells": cells, "got": back, "packed_got": back2})
    # the same on a generic model, model side too
    drv = core.Driver()
    for si, (st, sj, meta) in enumerate(_SCHEMAS):
        if st[1] == "AnyLists":
            val = {"u": [["a", "b"], "c"], "v": ["k"], "w": {"hs": [], "b": ""}}
            a = drv.results([{"op": "row.roundtrip", "sch": sj, "targets": [], "v": R.val_json(st, val)}])[0]
            real_cells, raw = R.real_unparse(R.mk_class(st), R.instance(st, val), [])
            rb = R.real_parse(R.mk_class(st), st, raw)
            mb = R.model_result(a["back"])
            ck.evaluations += 1
            if not R.same_outcome(rb, mb):
                ck.tie_break("F-C04-d trigger: model and real code differ", {"real": rb, "model": mb})
            ck.count("known_F-C04-d_generic_" + ("err" if rb[0] == "err" else "ok"))


def witness_stream(ck):
    """the kernel-checked negative witnesses of Props/C07.lean (`needs_…`), replayed on the real code:
    each must fail there too — otherwise the model, not the code, is wrong"""
    M, REQ = G.model, R.REQ
    sub = M("Sub", [("p", "str", ""), ("q", "int", 0), ("w", "bool", False), ("z", "str", "zz")])
    subd = {"p": "", "q": 0, "w": False, "z": "zz"}
    flat = M("ExFlat", [("a", "str", ""), ("b", "int", 0), ("c", "bool", True), ("e", "str", "dflt"), ("r", "str", REQ)])
    fam = M("ExFam", [("a", "str", ""), ("xs", ("list", "str"), []), ("s", sub, subd), ("c", "bool", True), ("ys", ("list", "str"), REQ)])
    items = M("ExItems", [("items", ("list", sub), [])])
    deep = M("ExDeep", [("s", M("SubL", [("xs", ("list", "str"), [])]), {"xs": []})])
    anyl = M("ExAny", [("u", "any", [])])
    fv = lambda xs, z: {"a": "", "xs": xs, "s": {"p": "", "q": 0, "w": False, "z": z}, "c": True, "ys": ["y"]}  # noqa: E731
    W = [
        ("needs_trimmed", flat, [], {"a": " x", "b": 0, "c": True, "e": "dflt", "r": "r"}, False),
        ("needs_no_blank_in_list", fam, ["xs"], fv(["a", ""], "zz"), False),
        ("needs_no_blank_in_subrecord", fam, ["s"], fv([], ""), False),
        ("needs_nonempty_or_default", fam, [], {"a": "", "xs": [], "s": subd, "c": True, "ys": []}, False),
        ("needs_no_all_default_record_in_list", items, [], {"items": [subd, {"p": "x", "q": 0, "w": False, "z": "zz"}]}, False),
        ("needs_admissible_depth (packed)", deep, ["s"], {"s": {"xs": ["a"]}}, False),
        ("needs_admissible_depth (spread)", deep, [], {"s": {"xs": ["a"]}}, True),
        ("spread_untyped_list_of_lists_fails (spread)", anyl, [], {"u": [["k", "v"]]}, False),
        ("spread_untyped_list_of_lists_fails (packed)", anyl, ["u"], {"u": [["k", "v"]]}, True),
        ("needs_layoutOk_on_the_value (items.2)", M("ExItemsDeep", [("items", ("list", M("SubXs", [("xs", ("list", "str"), [])])), [])]),
         ["items.2"], {"items": [{"xs": ["a"]}, {"xs": ["b"]}]}, False),
        ("needs_layoutOk_on_the_value (items.2.xs)", M("ExItemsDeep", [("items", ("list", M("SubXs", [("xs", ("list", "str"), [])])), [])]),
         ["items.2.xs"], {"items": [{"xs": ["a"]}, {"xs": ["b"]}]}, True),
        ("needs_no_empty_untyped_list_in_list", M("ExUl", [("ul", ("list", "any"), [])]), [], {"ul": [[], ["a"]]}, False),
        ("needs_remapOk", M("ExBadRemap", [("s", M("SubAB", [("a", "str", ""), ("b", "str", "")], {}, {"a": "h"}), {"a": "", "b": ""})]),
         [], {"s": {"a": "x", "b": ""}}, False),
        ("example exFam all packed", fam, ["xs", "s", "ys"], {"a": "x;y", "xs": ["a|b", "\\;", "q"], "s": {"p": "p;|q", "q": -7, "w": False, "z": "z"}, "c": True, "ys": ["one"]}, True),
    ]
    drv = core.Driver()
    for name, t, targets, v, expect in W:
        cls = R.mk_class(t)
        cells, raw = R.real_unparse(cls, R.instance(t, v), targets)
        back = R.real_parse(cls, t, raw) if raw is not None else ("err", "unparse")
        real_ok = back == ("ok", R.canon_plain(t, v))
        a = drv.results([{"op": "row.roundtrip", "sch": R.schema_json(t), "targets": targets, "v": R.val_json(t, v)}])[0]
        mb = R.model_result(a.get("back")) if isinstance(a, dict) and a.get("back") else ("err", "unparse")
        model_ok = mb == ("ok", R.canon_plain(t, v))
        ck.evaluations += 1
        ck.count("witness." + ("confirmed" if real_ok == expect and model_ok == expect else "MISMATCH"))
        if real_ok != expect or model_ok != expect:
            ck.tie_break(f"Lean witness {name}: expected round trip {'to hold' if expect else 'to fail'}; real={real_ok} model={model_ok}",
                         {"witness": name, "real": back, "model": mb})


def fold(ck, results):
    for r in results:
        ck.evaluations += r["n"]
        for k, n in r["strata"].items():
            ck.count(k, n)
        for t in r.get("ties", []):
            ck.tie_break(t["what"], t)
        for v in r["viol"]:
            ck.violation(v["what"], v)
        ck.nontrivial.update(r.get("keys", []))
        for s in r.get("samples", []):
            if len(ck.samples) < 6:
                ck.samples.append(s)


def run(ck: core.Check):
    ck.lean = core.lean_step("C07", thorough=(ck.tier == "thorough"))
    ck.rule = (
        "case = (row schema, target-header set, value). Schemas: 11 fixed ones (flat basic types, lists of basic types, "
        "lists of lists, untyped lists, sub-models, lists of sub-models, nested sub-models, remapped field names, "
        "headers that are prefixes of each other) + seeded random ones + the repo's FlowRowModel; target-header sets: all subsets "
        "of the packable positions when ≤ 64, sampled otherwise; values over | ; \\ space newline , \" é 日 1 0 true a b - False "
        "plus field-name-shaped strings, defaults taken with probability 0.35 per field; 12 % of the strings get whitespace of any kind "
        "(every code point with str.isspace()) or a zero-width space / BOM at an edge or inside — after trimming, the zero-width "
        "characters stay at the edge of representable strings; 3 % of the lists (records, lists, basic values, the edges of a flow "
        "row) have 10–12 entries, so that spread column names carry two-digit indices (f.10.sub, f.10.1). 75 % of the values lie in the "
        "representable domain (mirror of Props.C07.Representable), the rest exercise the tie only. A case is non-trivial / "
        "distinct when it is in the domain of the statement (oracle evaluated): distinct (schema, layout, value) triples."
    )
    ck.assumptions = [
        "pydantic v1: field order = declaration order, defaults fill absent fields, == is field-wise (exercised by tie and oracle)",
        "CPython str(int)/int(str)/str(bool)/float(repr(x)) as modelled in Rpft/Schema.lean (tie on every case)",
        "cells containing '{' start Jinja: outside the model and outside the representable domain (not generated)",
        "file route: tablib/csv/openpyxl are identity on the grid of strings for the generated alphabet; one row per sheet "
        "(padding of ragged multi-row sheets with blank cells is a C04 matter: F-C04-c)",
    ]
    ck.partial_gap = PARTIAL_GAP
    if not core.DRIVER_BIN.exists():
        raise core.Infra("driver not built:\n" + ck.lean.log[-2000:])
    quick = ck.tier == "quick"
    setup_schemas(ck.rng, 40 if quick else 150)

    # tie of the hand-written Lean flow schema with the source, at run time too (A has the theorem)
    drv = core.Driver()
    fs = drv.results([{"op": "row.flowschema"}])[0]
    ck.evaluations += 1
    if R.canon_schema(fs) != R.canon_schema(_FLOW["sj"]):     # remap tables are lookups: compared up to order
        ck.tie_break("Rpft.Row.flowRowSchema differs from FlowRowModel in the working tree", {"lean": fs, "source": _FLOW["sj"]})

    # matches_headers: model vs `re`
    mh = []
    hs_pool = ["a", "a.b", "a.*", "a.*.c", "*", "ab", "a.b.c", "edges.*.condition", "x.*.y.*", "a.*b", "*.b"]
    pf_pool = ["", ".a", ".a.b", ".ab", ".a.1", ".a.1.c", ".a.12.cd", ".b", ".edges.1.condition", ".edges.10.condition_x", ".x.1.y.2", ".a.bb", ".a..b", ".a.b.c.d", ".a.xb"]
    for h in hs_pool:
        for p in pf_pool:
            mh.append(([h], p))
    for _ in range(200):
        mh.append(([ck.rng.choice(hs_pool) for _ in range(ck.rng.randint(0, 3))], ck.rng.choice(pf_pool)))
    ans = drv.results([{"op": "row.match", "hs": h, "prefix": p} for h, p in mh])
    for (h, p), a in zip(mh, ans):
        ck.evaluations += 1
        if a != R.re_match(h, p[1:] if p.startswith(".") else p):
            ck.tie_break("matches_headers: model and `re` differ", {"headers": h, "prefix": p, "model": a})
    ck.count("matches_headers_cases", len(mh))

    cases = gen_cases(ck, per_layout=24 if quick else 120, flow_n=12000 if quick else 80000)
    fold(ck, par.pmap(worker, core.shard(cases, par.NPROC * 2)))

    # through real files
    fc = []
    dom_cases = [c for c in cases if c[3] != "dirty" and in_domain(_SCHEMAS[c[0]][0], _SCHEMAS[c[0]][1], c[1], c[2])]
    ck.rng.shuffle(dom_cases)
    n_csv, n_xlsx = (400, 120) if quick else (4000, 1200)
    flow_first = [c for c in dom_cases if c[3] == "flow"][: n_csv // 3] + [c for c in dom_cases if c[3] != "flow"]
    for i, c in enumerate(flow_first[: n_csv + n_xlsx]):
        fmt = "csv" if i < n_csv else "xlsx"
        if fmt == "xlsx" and not xlsx_safe(c[2]):
            ck.count("file.xlsx-skipped-number-precision")  # Excel numbers are IEEE doubles
            continue
        skip = file_skip(c[2], fmt)
        if skip:
            ck.count(skip)
            if fmt == "csv" and skip == "file.skipped-carriage-return-in-cell":
                fc.append((c[0], c[1], c[2], "csv-cr"))         # → the F-C07-b stream
            continue
        fc.append((c[0], c[1], c[2], fmt))
    # F-C07-b stream: in-domain values with a CR / CRLF put inside one string, through the CSV route
    n_cr = 0
    for c in flow_first:
        if n_cr >= (60 if quick else 400):
            break
        if file_skip(c[2], "csv"):
            continue
        w = with_cr(ck.rng, c[2])
        if w is not None and in_domain(_SCHEMAS[c[0]][0], _SCHEMAS[c[0]][1], c[1], w):
            fc.append((c[0], c[1], w, "csv-cr"))
            n_cr += 1
    res = par.pmap(file_worker, core.shard(fc, par.NPROC))
    fold(ck, res)
    rds = [x for r in res for x in r.get("rds", [])]
    if rds:
        ans = core.Driver().results([{"op": "csv.rdsexport", "records": recs} for recs, _ in rds])
        for (recs, text), a in zip(rds, ans):
            ck.evaluations += 1
            if a != text:
                ck.tie_break("the text RowDataSheet.export(csv) writes differs from the model's (Csv.rdsExportCsv)",
                             {"records": recs, "real": text, "model": a})
        ck.count("file.csv.text-tie", len(rds))
    cr_known = [x for r in res for x in r.get("cr_known", [])]
    ck.count("file.csv-cr.carriage-return-removed(F-C07-b)", len(cr_known))
    if cr_known:
        ck.known("F-C07-b", "RowDataSheet.export(csv) removes every carriage return of the exported text, those inside cells too: "
                            "a row with CR / CRLF inside a string is read back with the CR gone (%d of the %d CR rows of this run; "
                            "nothing else differs)" % (len(cr_known), ck.strata.get("file.csv-cr", 0)), cr_known[0])
    elif ck.strata.get("file.csv-cr"):
        ck.notes.append("F-C07-b no longer reproduces (rows with a carriage return inside a cell survive the CSV file route)")

    known_finding_stream(ck)
    witness_stream(ck)

    for soft in ("theorem-domain.fixed", "theorem-domain.random", "theorem-domain.flow"):
        if not ck.strata.get(soft):
            # not an infrastructure matter: a source edit can put a whole schema outside the theorem's family
            ck.notes.append(f"no generated case satisfies the hypotheses of Props.C07.parse_unparse in stratum {soft}")
    for need in ("fixed.in-domain", "random.in-domain", "flow.in-domain", "layout.packed-some", "layout.all-spread", "file.csv", "file.xlsx", "file.csv-cr"):
        if not ck.strata.get(need):
            raise core.Infra(f"generator self-check: stratum {need} is empty")

    if (ck.tie_breaks or not ck.lean.ok) and not ck.violations and quick:
        # obligation broken: failing-input search = thorough-size generators through the oracle
        ck.search_ran = True
        more = gen_cases(ck, per_layout=25, flow_n=15000, out_frac=0.0)
        fold(ck, par.pmap(worker, core.shard(more, par.NPROC * 2)))


PARTIAL_GAP = [
    "parse_unparse is proved for the whole family goodTop (any nesting of basic types, untyped lists, List[T], sub-records with consistent remap tables), every Representable value and every LayoutOk layout, top-level remaps via RemapConsistent; flow_row_roundtrip instantiates it to the real FlowRowModel with all table side conditions discharged by decide",
    "outside the theorem by design (each with a kernel-checked negative witness): non-representable values, excluded_headers, one-cell positions deeper than two levels, a spread untyped list holding lists (F-C04-d), record types whose remap tables are not mutually inverse, flow rows whose message_text field is not the main argument of the row type",
    "the earlier theorems parse_unparse_partial / parse_unparse_flat_partial (static Admissible, first-round family) are kept; the static general statement C07_static_statement is refuted (static_statement_is_false)",
    "floats are an abstract codec: the value domain carries repr(x); float(repr(x)) == x is CPython's, checked by the tie",
]


def replay(path):
    rec = json.load(open(path))
    print(json.dumps(rec, indent=1, ensure_ascii=False)[:6000])
    return 0
