#!/usr/bin/env python3
"""rewrite the seeded-changes table of DESIGN.md (between the markers) from seeded/*/meta.json"""
import glob, json, os, re
rows = []
for d in sorted(glob.glob(os.path.join(os.path.dirname(os.path.abspath(__file__)), "seeded", "*"))):
    m = json.load(open(os.path.join(d, "meta.json")))
    det = m.get("detected_by", "")
    missed = "miss" in det.lower() or "strengthen" in det.lower() or "first only" in det.lower()
    outcome = ("missed at first → check strengthened → caught: " if missed else "caught: ") + det
    summ = " ".join(m.get("summary", "").split())
    rows.append(f"| `{os.path.basename(d)}` | {m.get('property')} | {summ[:230]}{'…' if len(summ) > 230 else ''} | {' '.join(outcome.split())[:300]} |")
table = "| seeded change | property | what it does | outcome (which check / stream detects it) |\n|---|---|---|---|\n" + "\n".join(rows)
p = os.path.join(os.path.dirname(os.path.abspath(__file__)), "DESIGN.md")
s = open(p).read()
a, b = "<!-- SEEDS-TABLE-BEGIN -->", "<!-- SEEDS-TABLE-END -->"
assert a in s and b in s
s = s[: s.index(a) + len(a)] + "\n" + table + "\n" + s[s.index(b):]
open(p, "w").write(s)
print(len(rows), "seeded changes")
